"""C17 — proportion CIs are monotone in the data, mirror-symmetric and shrink with n.
Engine M, real arithmetic, on the terms extracted from ci_wilson / ci_z_normal (n, k real-relaxed, z symbolic)."""
from fractions import Fraction
from mirsmt import engine as E, term as T, mir
from props.common_m import *
from props.c02_m import n_i, k_i, n_f, k_f, Z

TRUSTED = ['real-arithmetic semantics for floats (rounding outside)', 'n, k relaxed to reals (enlarges the quantified domain)', 'z symbolic: every obligation holds for every real z of the stated sign; "higher level => larger z" is the oracle axiom (Zq increasing) plus monotonicity of Confidence::quantile',
           'MIR call models listed under call_models_used', 'z3 5.1 nlsat']


GUARD = []


def extract_all(m, fname):
    """{kind: [(pc, lo, hi), ...]} - every Ok path with the oracle abstracted by Z (a change may split a path into several)"""
    out = {}
    for p in proportion_paths(m, fname):
        if p['rk'] == 'stuck':
            raise mir.Stuck(p['value'][1])
        if p['rk'] != 'return' or not E.is_ok(p['value']):
            continue
        variant, bounds = E.interval_parts(p['value'])
        if GUARD and not oracle_guard(GUARD[0], m, GUARD[1] + ':' + fname, p['pc'], bounds):
            continue
        if variant != 'TwoSided':
            raise mir.Stuck('proportion interval stored as %s' % variant)
        out.setdefault(p['kind'], []).append(([abstract_apps(c, {'Zq': Z}) for c in p['pc']], abstract_apps(bounds[0], {'Zq': Z}), abstract_apps(bounds[1], {'Zq': Z})))
    return out


def extract(m, fname):
    """{kind: (pc, lo, hi)}: the first Ok path per kind (callers that relate two evaluations use extract_all)"""
    return {k: v[0] for k, v in extract_all(m, fname).items()}


def run(ctx):
    ctx.level = 'proof'
    ctx.trusted_base = TRUSTED
    ctx.assumptions += ['all obligations quantify over real n, k in the admissible domain (Wilson: 2 <= k <= n-2; Wald: 10 <= k <= n-10) and real z; integrality of n, k is not used',
                        'Wald monotonicity in k is stated for 0 <= z <= 4 (levels up to 0.9999 have z < 3.9): for larger z the Wald lower bound is genuinely not monotone near the domain edge',
                        'every obligation has a satisfiability witness of its premises']
    m = E.MEngine(ctx)
    if not m.ok:
        return
    GUARD[:] = [ctx, 'C17']
    try:
        for fname, tag, lo_dom in (('ci_wilson', 'wilson', 2), ('ci_z_normal', 'wald', 10)):
            family(ctx, m, fname, tag, lo_dom)
    except mir.Stuck as e:
        m.stuck('C17:M', 'unsupported construct: %s' % e)
    m.finish()


def family(ctx, m, fname, tag, lo_dom):
    exa = extract_all(m, fname)
    if set(exa) != {0, 1, 2}:
        m.stuck('C17:%s' % tag, 'Ok paths for kinds %s only' % sorted(exa))
        return
    zero, one, half = T.fconst(0), T.fconst(1), T.fconst(Fraction(1, 2))
    k2, n2, Z2, mm = T.var('k2', 'i'), T.var('n2', 'i'), T.var('Z2'), T.var('m')
    dom = lambda n, k: [T.mk('fge', T.mk('i2f', k), T.fconst(lo_dom)), T.mk('fge', T.mk('fsub', T.mk('i2f', n), T.mk('i2f', k)), T.fconst(lo_dom))]
    zpos = [T.mk('fgt', Z, zero)]
    sub = lambda t, ren: rename(t, ren)
    P = 'C17:%s:' % tag
    nk = T.mk('isub', n_i, k_i)
    mir_ren = {'k': nk}
    multi = any(len(v) > 1 for v in exa.values())
    zrange = zpos + ([T.mk('fle', Z, T.fconst(4))] if tag == 'wald' else [])
    phat = T.mk('fdiv', k_f, n_f)
    # relations between two evaluations: every pair of paths (on the unchanged code one path per kind)
    for i, (pci, loi, hii) in enumerate(exa[0]):
        for j, (pcj, loj, hij) in enumerate(exa[0]):
            sfx = '' if not multi else ':paths%d-%d' % (i, j)
            vac = (i == j)
            hy = pci + [sub(c, mir_ren) for c in pcj] + dom(n_i, k_i)
            m.submit(P + 'mirror:two-sided' + sfx, hy, T.and_(T.mk('feq', sub(loj, mir_ren), T.mk('fsub', one, hii)), T.mk('feq', sub(hij, mir_ren), T.mk('fsub', one, loi))), key=P + 'mirror', note='CI(n, n-k) = 1 - CI(n, k)', vacuity=vac)
            ren = {'k': k2}
            hy = pci + [sub(c, ren) for c in pcj] + dom(n_i, k_i) + dom(n_i, k2) + [T.mk('ile', k_i, k2)] + zrange
            m.submit(P + 'monotone-in-k:lower-bound' + sfx, hy, T.mk('fle', loi, sub(loj, ren)), key=P + 'monotone-in-k', timeout=240, note="k <= k' => lo(k) <= lo(k')", vacuity=vac)
            m.submit(P + 'monotone-in-k:upper-bound' + sfx, hy, T.mk('fle', hii, sub(hij, ren)), key=P + 'monotone-in-k', timeout=240, note="k <= k' => hi(k) <= hi(k')", vacuity=False)
            ren = {'n': n2, 'k': k2}
            scale = [T.mk('feq', T.mk('i2f', n2), T.mk('fmul', mm, n_f)), T.mk('feq', T.mk('i2f', k2), T.mk('fmul', mm, k_f)), T.mk('fgt', mm, one)]
            hy = pci + [sub(c, ren) for c in pcj] + dom(n_i, k_i) + scale + zpos
            m.submit(P + 'shrinks-with-n' + sfx, hy, T.mk('flt', T.mk('fsub', sub(hij, ren), sub(loj, ren)), T.mk('fsub', hii, loi)), key=P + 'shrinks-with-n', timeout=240, note='width(m n, m k) < width(n, k) for m > 1', vacuity=vac)
            ren = {'Z': Z2}
            hy = pci + [sub(c, ren) for c in pcj] + dom(n_i, k_i) + zpos + [T.mk('flt', Z, Z2)]
            m.submit(P + 'wider-with-level' + sfx, hy, T.and_(T.mk('fle', sub(loj, ren), loi), T.mk('fle', hii, sub(hij, ren))), key=P + 'wider-with-level', timeout=240, note="z < z' => CI(z) inside CI(z')", vacuity=vac)
    for i, (pcl, lol, hil) in enumerate(exa[2]):
        for j, (pcu, lou, hiu) in enumerate(exa[1]):
            sfx = '' if not multi else ':paths%d-%d' % (i, j)
            hy = nokind(pcl) + [sub(c, mir_ren) for c in nokind(pcu)] + dom(n_i, k_i)
            m.submit(P + 'mirror:one-sided' + sfx, hy, T.and_(T.mk('feq', sub(lou, mir_ren), T.mk('fsub', one, hil)), T.mk('feq', sub(hiu, mir_ren), T.mk('fsub', one, lol))), key=P + 'mirror',
                     note='upper one-sided CI(n, n-k) = 1 - lower one-sided CI(n, k)', vacuity=(i == j and not multi))
    m.submit(P + 'monotone-in-k:premises', exa[0][0][0] + [sub(c, {'k': k2}) for c in exa[0][0][0]] + dom(n_i, k_i) + dom(n_i, k2) + [T.mk('ilt', k_i, k2)] + zrange, None, expect='sat', key='C17:vacuity')
    # per path: inside [0,1] for EVERY kind (Wilson), midpoint
    for kind in (0, 1, 2):
        for i, (pc, lo, hi) in enumerate(exa[kind]):
            sfx = KNAME[kind] + ('' if len(exa[kind]) == 1 else ':path%d' % i)
            hy = pc + dom(n_i, k_i) + zpos
            if tag == 'wilson':
                m.submit(P + 'within-unit-interval:' + sfx, hy, T.and_(T.mk('fle', zero, lo), T.mk('fle', lo, hi), T.mk('fle', hi, one)), key=P + 'within-unit-interval', note='0 <= lower <= upper <= 1')
            if kind == 0:
                mid = T.mk('fdiv', T.mk('fadd', lo, hi), T.fconst(2))
                if tag == 'wilson':
                    goal = T.or_(T.and_(T.mk('fle', phat, mid), T.mk('fle', mid, half)), T.and_(T.mk('fle', half, mid), T.mk('fle', mid, phat)))
                    m.submit(P + 'midpoint-between-phat-and-half:' + sfx, hy, goal, key=P + 'midpoint', note='midpoint of the two-sided interval lies between k/n and 1/2')
                else:
                    m.submit(P + 'midpoint-is-phat:' + sfx, hy, T.mk('feq', mid, phat), key=P + 'midpoint')
    m.collect()
