"""C17 — proportion CIs are monotone in the data, mirror-symmetric and shrink with n.
Engine M, real arithmetic, on the terms extracted from ci_wilson / ci_z_normal (n, k real-relaxed, z symbolic)."""
from fractions import Fraction
from mirsmt import engine as E, term as T, mir
from props.common_m import *
from props.c02_m import n_i, k_i, n_f, k_f, Z

TRUSTED = ['real-arithmetic semantics for floats (rounding outside)', 'n, k relaxed to reals (enlarges the quantified domain)', 'z symbolic: every obligation holds for every real z of the stated sign; "higher level => larger z" is the oracle axiom (Zq increasing) plus monotonicity of Confidence::quantile',
           'MIR call models listed under call_models_used', 'z3 5.1 nlsat']


GUARD = []


def extract(m, fname):
    """{kind: (pc, lo, hi)} of the Ok paths with the oracle abstracted by Z"""
    out = {}
    for p in proportion_paths(m, fname):
        if p['rk'] == 'stuck':
            raise mir.Stuck(p['value'][1])
        if p['rk'] != 'return' or not E.is_ok(p['value']):
            continue
        variant, bounds = E.interval_parts(p['value'])
        if GUARD and not oracle_guard(GUARD[0], m, GUARD[1] + ':' + fname, p['pc'], bounds):
            continue
        if variant != 'TwoSided':
            raise mir.Stuck('proportion interval stored as %s' % variant)
        out[p['kind']] = ([abstract_apps(c, {'Zq': Z}) for c in p['pc']], abstract_apps(bounds[0], {'Zq': Z}), abstract_apps(bounds[1], {'Zq': Z}))
    return out


def run(ctx):
    ctx.level = 'proof'
    ctx.trusted_base = TRUSTED
    ctx.assumptions += ['all obligations quantify over real n, k in the admissible domain (Wilson: 2 <= k <= n-2; Wald: 10 <= k <= n-10) and real z; integrality of n, k is not used',
                        'Wald monotonicity in k is stated for 0 <= z <= 4 (levels up to 0.9999 have z < 3.9): for larger z the Wald lower bound is genuinely not monotone near the domain edge',
                        'every obligation has a satisfiability witness of its premises']
    m = E.MEngine(ctx)
    if not m.ok:
        return
    GUARD[:] = [ctx, 'C17']
    try:
        for fname, tag, lo_dom in (('ci_wilson', 'wilson', 2), ('ci_z_normal', 'wald', 10)):
            family(ctx, m, fname, tag, lo_dom)
    except mir.Stuck as e:
        m.stuck('C17:M', 'unsupported construct: %s' % e)
    m.finish()


def family(ctx, m, fname, tag, lo_dom):
    ex = extract(m, fname)
    if set(ex) != {0, 1, 2}:
        m.stuck('C17:%s' % tag, 'Ok paths for kinds %s only' % sorted(ex))
        return
    zero, one, half = T.fconst(0), T.fconst(1), T.fconst(Fraction(1, 2))
    k2, n2, Z2, mm = T.var('k2', 'i'), T.var('n2', 'i'), T.var('Z2'), T.var('m')
    dom = lambda n, k: [T.mk('fge', T.mk('i2f', k), T.fconst(lo_dom)), T.mk('fge', T.mk('fsub', T.mk('i2f', n), T.mk('i2f', k)), T.fconst(lo_dom))]
    zpos = [T.mk('fgt', Z, zero)]
    pc0, lo, hi = ex[0]
    sub = lambda t, ren: rename(t, ren)
    P = 'C17:%s:' % tag
    # --- mirror: the interval for n-k successes is 1 - (interval for k), upper/lower exchanged
    nk = T.mk('isub', n_i, k_i)
    mir_ren = {'k': nk}
    hy = pc0 + [sub(c, mir_ren) for c in pc0] + dom(n_i, k_i)
    m.submit(P + 'mirror:two-sided', hy, T.and_(T.mk('feq', sub(lo, mir_ren), T.mk('fsub', one, hi)), T.mk('feq', sub(hi, mir_ren), T.mk('fsub', one, lo))), key=P + 'mirror', note='CI(n, n-k) = 1 - CI(n, k)')
    pcu, lou, hiu = ex[1]
    pcl, lol, hil = ex[2]
    hy = nokind(pcl) + [sub(c, mir_ren) for c in nokind(pcu)] + dom(n_i, k_i)
    m.submit(P + 'mirror:one-sided', hy, T.and_(T.mk('feq', sub(lou, mir_ren), T.mk('fsub', one, hil)), T.mk('feq', sub(hiu, mir_ren), T.mk('fsub', one, lol))), key=P + 'mirror',
             note='upper one-sided CI(n, n-k) = 1 - lower one-sided CI(n, k)')
    # --- monotone in k
    ren = {'k': k2}
    zrange = zpos + ([T.mk('fle', Z, T.fconst(4))] if tag == 'wald' else [])
    hy = pc0 + [sub(c, ren) for c in pc0] + dom(n_i, k_i) + dom(n_i, k2) + [T.mk('ile', k_i, k2)] + zrange
    m.submit(P + 'monotone-in-k:lower-bound', hy, T.mk('fle', lo, sub(lo, ren)), key=P + 'monotone-in-k', timeout=240, note='k <= k\' => lo(k) <= lo(k\')')
    m.submit(P + 'monotone-in-k:upper-bound', hy, T.mk('fle', hi, sub(hi, ren)), key=P + 'monotone-in-k', timeout=240, note='k <= k\' => hi(k) <= hi(k\')')
    m.submit(P + 'monotone-in-k:premises', hy + [T.mk('ilt', k_i, k2)], None, expect='sat', key='C17:vacuity')
    # --- same proportion on a larger population: strictly narrower
    ren = {'n': T.mk('imul', mm, n_i) if False else n2, 'k': k2}
    scale = [T.mk('feq', T.mk('i2f', n2), T.mk('fmul', mm, n_f)), T.mk('feq', T.mk('i2f', k2), T.mk('fmul', mm, k_f)), T.mk('fgt', mm, one)]
    hy = pc0 + [sub(c, ren) for c in pc0] + dom(n_i, k_i) + scale + zpos
    m.submit(P + 'shrinks-with-n', hy, T.mk('flt', T.mk('fsub', sub(hi, ren), sub(lo, ren)), T.mk('fsub', hi, lo)), key=P + 'shrinks-with-n', timeout=240, note='width(m n, m k) < width(n, k) for m > 1')
    # --- wider with z (hence with the level)
    ren = {'Z': Z2}
    hy = pc0 + [sub(c, ren) for c in pc0] + dom(n_i, k_i) + zpos + [T.mk('flt', Z, Z2)]
    m.submit(P + 'wider-with-level', hy, T.and_(T.mk('fle', sub(lo, ren), lo), T.mk('fle', hi, sub(hi, ren))), key=P + 'wider-with-level', timeout=240, note='z < z\' => CI(z) inside CI(z\')')
    # --- within [0,1] (Wilson), midpoint between k/n and 1/2 (Wilson)
    phat = T.mk('fdiv', k_f, n_f)
    hy = pc0 + dom(n_i, k_i) + zpos
    if tag == 'wilson':
        m.submit(P + 'within-unit-interval', hy, T.and_(T.mk('fle', zero, lo), T.mk('fle', hi, one)), key=P + 'within-unit-interval')
        mid = T.mk('fdiv', T.mk('fadd', lo, hi), T.fconst(2))
        goal = T.or_(T.and_(T.mk('fle', phat, mid), T.mk('fle', mid, half)), T.and_(T.mk('fle', half, mid), T.mk('fle', mid, phat)))
        m.submit(P + 'midpoint-between-phat-and-half', hy, goal, key=P + 'midpoint', note='midpoint of the two-sided interval lies between k/n and 1/2')
    else:
        mid = T.mk('fdiv', T.mk('fadd', lo, hi), T.fconst(2))
        m.submit(P + 'midpoint-is-phat', hy, T.mk('feq', mid, phat), key=P + 'midpoint')
    m.submit(P + 'premises', hy, None, expect='sat', key='C17:vacuity')
    m.collect()
