"""C18 — Confidence is valid by construction and obeys its algebraic laws (engine K, every f64/f32 bit pattern)."""
from vlib import core

PANIC = r'Confidence level must be in the range \(0, 1\)'


def run(ctx):
    ctx.level = 'model_checking'
    ctx.functions += ['Confidence::{new,new_two_sided,new_upper,new_lower}', 'Confidence::{level,percent,kind,is_two_sided,is_one_sided,is_upper,is_lower,flipped}',
                      '<Confidence as PartialOrd>::partial_cmp', '<Confidence as PartialEq>::eq', '<Confidence as TryFrom<f64>>::try_from', '<Confidence as TryFrom<f32>>::try_from', 'Confidence::default']
    ctx.assumptions += [
        'every f64 (resp. f32) bit pattern is a symbolic input: NaN, +-inf, +-0, subnormals, neighbours of 0 and 1 included; no range bound',
        'documented constructor panics are checked as: the documented panic is the only failing CBMC property and the statement after the call is unreachable',
        'percent() is checked for range only (one float multiplication; recomputing it in the harness would be a float miter)',
    ]
    exp = {h: [PANIC] for h in ('c18_new_invalid_panics', 'c18_new_two_sided_invalid_panics', 'c18_new_upper_invalid_panics', 'c18_new_lower_invalid_panics')}
    core.run_kani_set(ctx, ['c18_'], bound='all f64/f32 bit patterns', harness_timeout=600, expected_fail=exp)
    if ctx.tier == 'thorough':
        # thorough tier: the same harnesses decided a second time by an independent SAT solver (kissat instead of CaDiCaL)
        core.run_kani_set(ctx, ['c18_'], bound='all f64/f32 bit patterns', harness_timeout=1800, expected_fail=exp, solver='kissat')
