"""C04 — paired CI = mean CI of the differences; unpaired CI = documented Welch-type interval.
Engine M (real arithmetic) on Unpaired::<T>::ci_mean and the loop-free Paired methods; engine K for the feeding loops."""
from fractions import Fraction
from vlib import core
from mirsmt import engine as E, term as T, mir
from props.common_m import *
from props.c01 import spec_terms

TRUSTED = ['real-arithmetic semantics for floats (rounding outside)', 'integers that only feed float casts relaxed to reals', 'oracles Tq(p,dof), Zq(p) uninterpreted; swap symmetry additionally uses "Tq, Zq odd about 1/2" (a true quantile function of a symmetric distribution)',
           'sub-term abstraction: the two per-sample variance terms are proved equal to the textbook variances first and then replaced by fresh variables (sound for validity)', 'MIR call models listed under call_models_used', 'z3 5.1 nlsat']


def run(ctx):
    ctx.level = 'proof'
    ctx.trusted_base = TRUSTED
    ctx.assumptions += ['M obligations hold for all pairs of accumulator states with counts >= 2 (any sample sizes, equal or not) and all levels in (0,1), over the reals',
                        'K: feeding loops with <= 3 (paired) / <= 2+2 (unpaired) symbolic observations; Arithmetic::append / ci_mean replaced by recorders; one operand of every pair is zero so that the recorded difference needs no float recomputation']
    core.run_kani_set(ctx, ['c04_', 'c11_paired_ci_mean_delegates'], bound='<= 3 pairs; recorder stubs', harness_timeout=900)
    m = E.MEngine(ctx)
    if not m.ok:
        return
    try:
        paired(ctx, m)
        unpaired(ctx, m)
    except mir.Stuck as e:
        m.stuck('C04:M', 'unsupported construct: %s' % e)
    m.finish()


def paired(ctx, m):
    # append_pair(a, b) == stats.append(a - b)
    f = m.fn('append_pair', 'Paired', 'inherent')
    st = ('adt', 'Paired', 0, [E.arith()])
    ref, extra = E.self_ref(st)
    rec = []
    orig = m.models.dispatch

    def dispatch(mach, s, fid, callee, argv):
        if callee.endswith('>::append') or callee.split('::')[-1] == 'append':
            rec.append([mach.deref(s, a) if a[0] == 'ref' else a for a in argv])
            return [(None, ('adt', 'Result', 0, [('unit',)]))]
        return orig(mach, s, fid, callee, argv)
    m.models.dispatch = dispatch
    try:
        res = m.run(f, [ref, E.fv('a'), E.fv('b')], extra)
    finally:
        m.models.dispatch = orig
    want = T.mk('fsub', T.var('a'), T.var('b'))
    ok = len(rec) == 1 and len(rec[0]) == 2 and rec[0][1] == ('f', want) and rec[0][0] == E.arith() and all(r.kind == 'return' for r in res)
    if ok:
        ctx.record('C04:paired:append_pair:term-identity', 'M', 'held', bound='syntactic', sample={'obligation': 'Paired::append_pair(a,b) == stats.append(a - b)', 'verdict': 'same terms'})
    else:
        m.violated_structurally('C04:paired:append_pair:term-identity', 'C04:paired:append_pair', 'append_pair(a,b) does not append a - b to the accumulator of differences: %s' % [mir.show(x) for x in (rec[0] if rec else [])][:3])
    # ci_mean / sample_mean / sample_sem / sample_count delegate to the wrapped Arithmetic
    for meth, args in (('ci_mean', [E.confidence()]), ('sample_mean', []), ('sample_sem', []), ('sample_count', [])):
        fp = m.fn(meth, 'Paired', 'inherent')
        fa = m.fn(meth, 'Arithmetic', 'inherent')
        ref, extra = E.self_ref(st)
        rp = m.run(fp, [ref] + args, extra)
        ref2, extra2 = E.self_ref(E.arith())
        ra = m.run(fa, [ref2] + args, extra2)
        key = lambda rs: sorted((tuple(map(T.show, r.pc)), mir.show(r.value), r.kind) for r in rs)
        if key(rp) == key(ra) and not any(r.kind == 'stuck' for r in rp):
            ctx.record('C04:paired:%s:delegates' % meth, 'M', 'held', bound='syntactic (same paths, same terms)', sample={'obligation': 'Paired::%s == Arithmetic::%s on the differences' % (meth, meth), 'paths': len(rp)})
        else:
            m.violated_structurally('C04:paired:%s:delegates' % meth, 'C04:paired:' + meth, 'Paired::%s is not Arithmetic::%s of the accumulated differences' % (meth, meth))


def unpaired_paths(m):
    f = m.fn('ci_mean', 'Unpaired', 'inherent')
    st = ('adt', 'Unpaired', 0, [E.arith('a'), E.arith('b')])
    ref, extra = E.self_ref(st)
    return m.run(f, [ref, E.confidence()], extra)


def unpaired(ctx, m):
    res = unpaired_paths(m)
    ctx.extra['unpaired_ci_mean_paths'] = len(res)
    Sa, Qa, na, ma, va = spec_terms('a')
    Sb, Qb, nb, mb, vb = spec_terms('b')
    base = [T.mk('ige', T.var('na', 'i'), T.iconst(2)), T.mk('ige', T.var('nb', 'i'), T.iconst(2))] + LEVEL_OK
    VA, VB, SE, C = T.var('VA'), T.var('VB'), T.var('SE'), T.var('C')
    one = T.fconst(1)
    A = T.mk('fdiv', VA, na)
    B = T.mk('fdiv', VB, nb)
    nu = T.mk('fsub', T.mk('fdiv', T.mk('fmul', T.mk('fadd', A, B), T.mk('fadd', A, B)),
                           T.mk('fadd', T.mk('fdiv', T.mk('fmul', A, A), T.mk('fadd', na, one)), T.mk('fdiv', T.mk('fmul', B, B), T.mk('fadd', nb, one)))), T.fconst(2))
    se_wit = [T.mk('fge', SE, T.fconst(0)), T.mk('feq', T.mk('fmul', SE, SE), T.mk('fadd', A, B)), T.mk('fgt', T.mk('fadd', A, B), T.fconst(0)), T.mk('fge', VA, T.fconst(0)), T.mk('fge', VB, T.fconst(0))]
    seen = set()
    seen_all = []
    var_done = False
    for r in res:
        if r.kind == 'stuck':
            m.stuck('C04:unpaired:path', r.value[1])
            continue
        if r.kind == 'panic':
            m.submit('C04:unpaired:no-panic[%s]' % r.value[1][:30], r.pc + base, T.bconst(False), key='C04:unpaired:panic', note='panic path infeasible for counts >= 2')
            continue
        v = r.value
        if E.is_err(v, 'TooFewSamples'):
            m.submit('C04:unpaired:too-few-samples-only-below-2', r.pc + base, T.bconst(False), key='C04:unpaired:too-few-samples')
            continue
        if not E.is_ok(v):
            continue
        variant, bounds = E.interval_parts(v)
        k = E.pc_kind(r.pc)
        uses_t = any(apps_in(b, 'Tq') for b in bounds)
        tag = '%s:%s' % (KNAME[k] if k is not None else '?', 'T' if uses_t else 'Z')
        from props.common_m import oracle_guard
        if not oracle_guard(ctx, m, 'C04:unpaired', r.pc, bounds):
            continue
        if (k, uses_t) in seen:
            tag += ':path%d' % sum(1 for x in seen_all if x == (k, uses_t))
        seen.add((k, uses_t))
        seen_all.append((k, uses_t))
        if k is None or variant != VARIANT[k]:
            m.violated_structurally('C04:unpaired:shape:' + tag, 'C04:unpaired:shape', 'confidence kind %s yields interval variant %s' % (k, variant))
            continue
        # (i) the per-sample variance sub-terms: find sample_std_dev^2 patterns by proving sd_a*sd_a == var_a under the sqrt witness
        # abstract: replace every sqrt-of-variance node whose argument equals var_a / var_b (as real identities) by sqrt witnesses
        sqrts = []
        for b in bounds + list(r.pc):
            T.contains(b, lambda t: sqrts.append(t) or False if t[0] == 'fsqrt' else False)
        sqrts = list(dict.fromkeys(sqrts))
        mapping = {}
        SDA, SDB = T.var('SDA'), T.var('SDB')
        for sq in sqrts:
            arg = sq[1]
            fva = T.free_vars(arg)
            if set(fva) <= {'sa', 'sca', 'qa', 'qca', 'na'} and 'qa' in fva:
                if not var_done:
                    m.submit('C04:unpaired:variance-a', base, T.mk('feq', arg, va), key='C04:unpaired:variance', note='(Q - mean*Sigma)/(n-1) == (Q - Sigma^2/n)/(n-1)')
                mapping[sq] = SDA
            elif set(fva) <= {'sb', 'scb', 'qb', 'qcb', 'nb'} and 'qb' in fva:
                if not var_done:
                    m.submit('C04:unpaired:variance-b', base, T.mk('feq', arg, vb), key='C04:unpaired:variance')
                mapping[sq] = SDB
        var_done = True
        if SDA not in mapping.values() or SDB not in mapping.values():
            m.stuck('C04:unpaired:structure:' + tag, 'could not locate the two per-sample standard deviations in the returned term')
            continue
        sd_wit = [T.mk('fge', SDA, T.fconst(0)), T.mk('feq', T.mk('fmul', SDA, SDA), VA), T.mk('fge', SDB, T.fconst(0)), T.mk('feq', T.mk('fmul', SDB, SDB), VB)]
        ab = lambda t: T.substitute(t, mapping)
        bnds = [ab(b) for b in bounds]
        pc = [ab(c) for c in r.pc]
        # (ii) split at the oracle application: bound = MD -/+ app(Q, DOF) * SEterm
        apps = list(dict.fromkeys(a for b in bnds for a in apps_in(b)))
        if len(apps) != 1:
            m.stuck('C04:unpaired:structure:' + tag, 'expected one oracle application, found %d' % len(apps))
            continue
        app = apps[0]
        qexp = quantile_of(k)
        m.submit('C04:unpaired:oracle-quantile:' + tag, pc + base, T.mk('feq', app[2], qexp), key='C04:unpaired:oracle-quantile', note='critical value at (1+L)/2 / L')
        if uses_t:
            m.submit('C04:unpaired:effective-dof:' + tag, pc + base + sd_wit + se_wit, T.mk('feq', app[3], nu), key='C04:unpaired:effective-dof', timeout=120,
                     note='dof = (sa2/na + sb2/nb)^2 / ((sa2/na)^2/(na+1) + (sb2/nb)^2/(nb+1)) - 2')
        lim = T.mk('flt', nu, T.fconst(100000))
        dof_term = app[3] if uses_t else None
        # t/z switch on the effective dof: read from the path condition (abstract the dof term)
        m.submit('C04:unpaired:t-z-switch:' + tag, pc + base + sd_wit + se_wit, lim if uses_t else T.not_(lim), key='C04:unpaired:t-z-switch', timeout=120, note='t iff effective dof < 100000')
        absC = lambda t: T.walk(t, lambda op, args, old: C if op == 'app' else T.mk(op, *args))
        md = T.mk('fsub', ma, mb)
        lo_s, hi_s = T.mk('fsub', md, T.mk('fmul', C, SE)), T.mk('fadd', md, T.mk('fmul', C, SE))
        goal = {0: lambda: T.and_(T.mk('feq', absC(bnds[0]), lo_s), T.mk('feq', absC(bnds[1]), hi_s)), 1: lambda: T.mk('feq', absC(bnds[0]), lo_s), 2: lambda: T.mk('feq', absC(bnds[0]), hi_s)}[k]()
        m.submit('C04:unpaired:formula:' + tag, [absC(c) for c in pc] + base + sd_wit + se_wit, goal, key='C04:unpaired:formula:' + KNAME[k], timeout=120,
                 note='(mean_a - mean_b) -/+ c * sqrt(sa2/na + sb2/nb) for every real c')
        m.submit('C04:unpaired:feasible:' + tag, [absC(c) for c in pc] + base + sd_wit + se_wit, None, expect='sat', key='C04:vacuity')
    for k in (0, 1, 2):
        for t_ in (True, False):
            if (k, t_) not in seen:
                m.stuck('C04:unpaired:coverage', 'no Ok path for kind %d with %s' % (k, 'Tq' if t_ else 'Zq'))
    m.collect()
    swap(ctx, m, res)


def swap(ctx, m, res):
    """Exchanging the two samples negates and mirrors the interval and exchanges upper/lower one-sidedness (given the oracle odd about 1/2)."""
    by = {}
    for r in res:
        if r.kind == 'return' and E.is_ok(r.value):
            k = E.pc_kind(r.pc)
            variant, bounds = E.interval_parts(r.value)
            t = bool(any(apps_in(b, 'Tq') for b in bounds))
            by.setdefault((k, t), (r.pc, bounds))
    ren = {'sa': T.var('sb'), 'sca': T.var('scb'), 'qa': T.var('qb'), 'qca': T.var('qcb'), 'na': T.var('nb', 'i'),
           'sb': T.var('sa'), 'scb': T.var('sca'), 'qb': T.var('qa'), 'qcb': T.var('qca'), 'nb': T.var('na', 'i')}
    C = T.var('C')
    absC = lambda t: T.walk(t, lambda op, args, old: C if op == 'app' else T.mk(op, *args))
    base = [T.mk('ige', T.var('na', 'i'), T.iconst(2)), T.mk('ige', T.var('nb', 'i'), T.iconst(2))] + LEVEL_OK
    for t in (True, False):
        if not all((k, t) in by for k in (0, 1, 2)):
            continue
        tag = 'T' if t else 'Z'
        pc0, b0 = by[(0, t)]
        pcu, bu = by[(1, t)]
        pcl, bl = by[(2, t)]
        sw = lambda x: rename(x, ren)
        # the oracle value is the same in both runs iff its arguments are swap-invariant: quantile trivially; dof by symmetry of the formula
        a0s = [a for b in b0 for a in apps_in(b)]
        if not a0s:
            continue                       # reported by the oracle guard above
        a0 = a0s[0]
        if t:
            m.submit('C04:swap:dof-symmetric:' + tag, pc0 + [sw(c) for c in pc0] + base, T.mk('feq', a0[3], sw(a0[3])), key='C04:swap:dof-symmetric', timeout=120, note='effective dof is symmetric in the two samples')
        hy = [absC(c) for c in pc0] + [absC(sw(c)) for c in pc0] + base
        m.submit('C04:swap:two-sided:' + tag, hy, T.and_(T.mk('feq', absC(sw(b0[0])), T.mk('fneg', absC(b0[1]))), T.mk('feq', absC(sw(b0[1])), T.mk('fneg', absC(b0[0])))), key='C04:swap:two-sided', timeout=120,
                 note='CI(b,a) = -CI(a,b) mirrored (same critical value)')
        # upper one-sided of (b,a) at level L: [md' - c se, inf) with md' = -md: equals -(upper end of lower one-sided of (a,b))
        hy = [absC(c) for c in nokind(pcl)] + [absC(sw(c)) for c in nokind(pcu)] + base
        m.submit('C04:swap:one-sided:' + tag, hy, T.mk('feq', absC(sw(bu[0])), T.mk('fneg', absC(bl[0]))), key='C04:swap:one-sided', timeout=120, note='upper one-sided CI(b,a) = -(lower one-sided CI(a,b))')
    m.collect()
