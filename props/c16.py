"""C16 — mean/comparison CIs are equivariant under scaling, negation, shift, reordering.
Engine M: real identities between the bound terms of Arithmetic::ci_mean / Unpaired::ci_mean on a transformed
accumulator state and the transformed bounds (symbolic lambda, d); per-operation IEEE scaling lemmas at F(5,11)."""
from fractions import Fraction
from mirsmt import engine as E, term as T, mir, smt
from props.common_m import *
from props import c04
from props.c01 import spec_terms

TRUSTED = ['real-arithmetic semantics for the homogeneity / mirror / shift identities (rounding outside, as the statement says for shifts)',
           'exactness for powers of two: each IEEE operation of the extracted DAG commutes with exact scaling absent over/underflow - decided per operation kind (+, - at F(5,11) in the quick tier; / at F(5,8) and * at F(4,8) in the thorough tier, * with the result at least twice the smallest normal)',
           'reordering: sums of a permutation are within the C08 bound of the same exact sums (reduction to C08)', 'paired = arithmetic on differences, geometric / harmonic = exp / reciprocal of arithmetic in the transformed space (C04, C05 term identities): their equivariance reduces to the arithmetic identities',
           'MIR call models listed under call_models_used', 'z3 5.1 nlsat / FP']


def run(ctx):
    ctx.level = 'proof'
    ctx.trusted_base = TRUSTED
    ctx.assumptions += ['state-level: the accumulator state of lambda*data is (lambda*sum, lambda*comp, lambda^2*sum_sq, lambda^2*comp_sq, n) over the reals (checked: append(lambda*x) on the scaled state yields the scaled successor); the state of data+d is (sum + n d, sum_sq + 2 d sum + n d^2, n) for compensations folded into the sums']
    from vlib import core
    # reordering: every producer accumulates through the compensated append (the one-shot entry points are folds of append)
    core.run_kani_set(ctx, ['c01_arith_feeding', 'c04_paired_ci_composition', 'c04_paired_feeders'], bound='<= 3 observations, recorder stubs', harness_timeout=900)
    m = E.MEngine(ctx)
    if not m.ok:
        return
    try:
        arith(ctx, m)
        unpaired(ctx, m)
        # geometric / harmonic intervals are exp / reciprocal of the arithmetic ones as identical DAGs (C05's identities, run here
        # too): with them the scaling behaviour of the two wrappers reduces to the arithmetic identities above
        from props import c05
        c05.oblig(ctx, m)
        ieee(ctx, m)
    except mir.Stuck as e:
        m.stuck('C16:M', 'unsupported construct: %s' % e)
    m.finish()


def scaled(lam, suffix=''):
    p = suffix
    l2 = T.mk('fmul', lam, lam)
    return {'s' + p: T.mk('fmul', lam, T.var('s' + p)), 'sc' + p: T.mk('fmul', lam, T.var('sc' + p)), 'q' + p: T.mk('fmul', l2, T.var('q' + p)), 'qc' + p: T.mk('fmul', l2, T.var('qc' + p))}


def shifted(d, suffix=''):
    p = suffix
    n = T.mk('i2f', T.var('n' + p, 'i'))
    S = T.mk('fadd', T.var('s' + p), T.var('sc' + p))
    return {'s' + p: T.mk('fadd', T.var('s' + p), T.mk('fmul', n, d)),
            'q' + p: T.mk('fadd', T.var('q' + p), T.mk('fadd', T.mk('fmul', T.mk('fmul', T.fconst(2), d), S), T.mk('fmul', n, T.mk('fmul', d, d))))}


def data_independent(m, name, bounds, allowed):
    for b in bounds:
        for a in apps_in(b):
            fv = set(T.free_vars(a)) - {'@Tq', '@Zq'}
            if not fv <= allowed:
                m.violated_structurally(name, name, 'the critical value depends on the data: %s' % sorted(fv - allowed))
                return False
    return True


def arith(ctx, m):
    by, _ = arith_ci_paths(m)
    S, Q, n, mean, var = spec_terms()
    lam, d = T.var('lam'), T.var('d')
    base = [T.mk('ige', T.var('n', 'i'), T.iconst(2)), T.mk('fge', var, T.fconst(0))] + LEVEL_OK
    for t in (True, False):
        tz = 'T' if t else 'Z'
        if not all((k, t) in by for k in (0, 1, 2)):
            m.stuck('C16:arith:coverage', 'missing Ok paths ' + tz)
            continue
        (pc0, _, b0), (pcu, _, bu), (pcl, _, bl) = by[(0, t)], by[(1, t)], by[(2, t)]
        if not data_independent(m, 'C16:arith:critical-value-data-independent:' + tz, b0 + bu + bl, {'L', 'n'}):
            continue
        ctx.record('C16:arith:critical-value-data-independent:' + tz, 'M', 'held', bound='dataflow fact read from the term', sample={'obligation': 'oracle arguments mention only the level and the count'})
        allp = arith_ci_all_paths(m)
        lam_pos = [T.mk('fgt', lam, T.fconst(0))]
        sc_ = scaled(lam)
        r = lambda x: rename(x, sc_)
        ng = scaled(T.fconst(-1))
        g = lambda x: rename(x, ng)
        sh = shifted(d)
        h = lambda x: rename(x, sh)
        P0, PU, PL = allp[(0, t)], allp[(1, t)], allp[(2, t)]
        # every pair (path taken by the original state, path taken by the transformed state): on the unchanged code there is one path
        # per kind; a change that adds a data-dependent branch (a threshold, a clamp) creates cross pairs that must agree as well
        for i, (pci, _, bi) in enumerate(P0):
            ai = [abs_c(x) for x in bi]
            hyi = [abs_c(c) for c in nokind(pci)] + base
            for j, (pcj, _, bj) in enumerate(P0):
                aj = [abs_c(x) for x in bj]
                hyj = [abs_c(c) for c in nokind(pcj)]
                sfx = '' if (i, j) == (0, 0) and len(P0) == 1 else ':paths%d-%d' % (i, j)
                vac = (i == j)
                m.submit('C16:arith:scale:two-sided:' + tz + sfx, hyi + [r(x) for x in hyj] + [r(x) for x in base] + lam_pos, T.and_(T.mk('feq', r(aj[0]), T.mk('fmul', lam, ai[0])), T.mk('feq', r(aj[1]), T.mk('fmul', lam, ai[1]))),
                         key='C16:arith:scale', timeout=180, note='CI(lambda * data) = lambda * CI(data), lambda > 0', vacuity=vac)
                m.submit('C16:arith:negate:two-sided:' + tz + sfx, hyi + [g(x) for x in hyj], T.and_(T.mk('feq', g(aj[0]), T.mk('fneg', ai[1])), T.mk('feq', g(aj[1]), T.mk('fneg', ai[0]))),
                         key='C16:arith:negate', timeout=180, note='CI(-data) = -CI(data) mirrored', vacuity=vac)
                m.submit('C16:arith:shift:two-sided:' + tz + sfx, hyi + [h(x) for x in hyj], T.and_(T.mk('feq', h(aj[0]), T.mk('fadd', ai[0], d)), T.mk('feq', h(aj[1]), T.mk('fadd', ai[1], d))),
                         key='C16:arith:shift', timeout=180, note='CI(data + d) = CI(data) + d', vacuity=vac)
        for i, (pcl_, _, bl_) in enumerate(PL):
            for j, (pcu_, _, bu_) in enumerate(PU):
                sfx = '' if (i, j) == (0, 0) and len(PL) == 1 and len(PU) == 1 else ':paths%d-%d' % (i, j)
                hyu = [abs_c(c) for c in nokind(pcl_)] + [g(abs_c(c)) for c in nokind(pcu_)] + base
                m.submit('C16:arith:negate:one-sided:' + tz + sfx, hyu, T.mk('feq', g(abs_c(bu_[0])), T.mk('fneg', abs_c(bl_[0]))), key='C16:arith:negate', timeout=180,
                         note='upper one-sided CI(-data) = -(lower one-sided CI(data))', vacuity=(len(PL) == 1 and len(PU) == 1))
    # append homogeneity
    fa = m.fn('append', 'Arithmetic', 'inherent')
    x = T.var('x')
    outs = {}
    for nm, st, arg in (('plain', E.arith(), x), ('scaled', None, None)):
        if nm == 'scaled':
            st = ('adt', 'Arithmetic', 0, [('adt', 'KahanSum', 0, [('f', T.mk('fmul', lam, T.var('s'))), ('f', T.mk('fmul', lam, T.var('sc')))]),
                                            ('adt', 'KahanSum', 0, [('f', T.mk('fmul', T.mk('fmul', lam, lam), T.var('q'))), ('f', T.mk('fmul', T.mk('fmul', lam, lam), T.var('qc')))]), E.iv('n')])
            arg = T.mk('fmul', lam, x)
        ref, extra = E.self_ref(st)
        rs = [r for r in m.run(fa, [ref, ('f', arg)], extra) if r.kind == 'return']
        if len(rs) != 1:
            m.stuck('C16:append', 'append paths')
            return
        s_ = rs[0].store['_self']
        outs[nm] = (s_[3][0][3][0][1], s_[3][0][3][1][1], s_[3][1][3][0][1], s_[3][1][3][1][1])
    p, q = outs['plain'], outs['scaled']
    l2 = T.mk('fmul', lam, lam)
    goal = T.and_(T.mk('feq', q[0], T.mk('fmul', lam, p[0])), T.mk('feq', q[1], T.mk('fmul', lam, p[1])), T.mk('feq', q[2], T.mk('fmul', l2, p[2])), T.mk('feq', q[3], T.mk('fmul', l2, p[3])))
    m.submit('C16:arith:append-homogeneous', [], goal, key='C16:arith:append-homogeneous', vacuity=False, note='append(lambda x) on the lambda-scaled state = lambda-scaled successor (degrees 1 and 2)')
    m.collect()


def unpaired(ctx, m):
    res = c04.unpaired_paths(m)
    by = {}
    allu = {}
    for r in res:
        if r.kind == 'stuck':
            raise mir.Stuck(r.value[1])
        if r.kind == 'return' and E.is_ok(r.value):
            variant, bounds = E.interval_parts(r.value)
            k = E.pc_kind(r.pc)
            t = bool(any(apps_in(b, 'Tq') for b in bounds))
            by.setdefault((k, t), (r.pc, variant, bounds))
            allu.setdefault((k, t), []).append((r.pc, variant, bounds))
    # a data-dependent shortcut (threshold, clamp) shows up as an Ok path whose bounds carry no critical value at all: such a path
    # cannot be equivariant together with the regular one; it is compared with the regular path below through the cross pairs
    extra_paths = [(r.pc, E.interval_parts(r.value)) for r in res if r.kind == 'return' and E.is_ok(r.value) and not any(apps_in(b) for b in E.interval_parts(r.value)[1])]
    Sa, Qa, na, ma, va = spec_terms('a')
    Sb, Qb, nb, mb, vb = spec_terms('b')
    lam, d = T.var('lam'), T.var('d')
    base = [T.mk('ige', T.var('na', 'i'), T.iconst(2)), T.mk('ige', T.var('nb', 'i'), T.iconst(2)), T.mk('fge', va, T.fconst(0)), T.mk('fge', vb, T.fconst(0)), T.mk('fgt', T.mk('fadd', va, vb), T.fconst(0))] + LEVEL_OK
    for t in (True, False):
        tz = 'T' if t else 'Z'
        if (0, t) not in by:
            m.stuck('C16:unpaired:coverage', 'missing two-sided Ok path ' + tz)
            continue
        pc0, _, b0 = by[(0, t)]
        sc_ = dict(scaled(lam, 'a'))
        sc_.update(scaled(lam, 'b'))
        r = lambda x: rename(x, sc_)
        # the effective dof is scale-invariant (so the same critical value applies). Sub-term abstraction: the per-sample
        # standard deviations are replaced by SDA, SDB (original) and lambda*SDA, lambda*SDB (scaled), after proving that the
        # variance terms scale by lambda^2
        a0 = [a for b in b0 for a in apps_in(b)]
        if t and a0:
            SDA, SDB = T.var('SDA'), T.var('SDB')
            sq = []
            T.contains(a0[0][3], lambda x: sq.append(x) or False if x[0] == 'fsqrt' else False)
            map_o, map_s = {}, {}
            okk = True
            for node in dict.fromkeys(sq):
                fv_ = set(T.free_vars(node[1]))
                which = 'a' if fv_ <= {'sa', 'sca', 'qa', 'qca', 'na'} else 'b' if fv_ <= {'sb', 'scb', 'qb', 'qcb', 'nb'} else None
                if which is None:
                    okk = False
                    continue
                sd = SDA if which == 'a' else SDB
                map_o[node] = sd
                map_s[r(node)] = T.mk('fmul', lam, sd)
                m.submit('C16:unpaired:variance-scales:' + which, base + [T.mk('fgt', lam, T.fconst(0))], T.mk('feq', r(node[1]), T.mk('fmul', T.mk('fmul', lam, lam), node[1])), key='C16:unpaired:variance-scales', timeout=120,
                         note='variance(lambda * sample) = lambda^2 variance(sample)')
            if okk and map_o:
                dof_o = T.substitute(a0[0][3], map_o)
                dof_s = T.substitute(r(a0[0][3]), map_s)
                hy = [T.mk('fgt', lam, T.fconst(0)), T.mk('fge', SDA, T.fconst(0)), T.mk('fge', SDB, T.fconst(0)), T.mk('fgt', T.mk('fadd', SDA, SDB), T.fconst(0)),
                      T.mk('ige', T.var('na', 'i'), T.iconst(2)), T.mk('ige', T.var('nb', 'i'), T.iconst(2))]
                m.submit('C16:unpaired:dof-scale-invariant', hy, T.mk('feq', dof_s, dof_o), key='C16:unpaired:dof-scale-invariant', timeout=240, note='effective dof(lambda*a, lambda*b) = dof(a, b) (standard deviations abstracted)')
            else:
                m.stuck('C16:unpaired:dof-scale-invariant', 'could not locate the per-sample standard deviations inside the dof term')
        ab = [abs_c(x) for x in b0]
        hyc = [abs_c(c) for c in nokind(pc0)] + [r(abs_c(c)) for c in nokind(pc0)] + base + [T.mk('fgt', lam, T.fconst(0))]
        m.submit('C16:unpaired:scale:' + tz, hyc, T.and_(T.mk('feq', r(ab[0]), T.mk('fmul', lam, ab[0])), T.mk('feq', r(ab[1]), T.mk('fmul', lam, ab[1]))), key='C16:unpaired:scale', timeout=240,
                 note='CI(lambda a, lambda b) = lambda CI(a, b) for the same critical value')
        # cross pairs with any further two-sided Ok path (original on one path, negated data on the other): the mirror clause
        ngu = dict(scaled(T.fconst(-1), 'a'))
        ngu.update(scaled(T.fconst(-1), 'b'))
        gneg = lambda x: rename(x, ngu)
        others = [p for p in allu.get((0, t), [])[1:]] + [(pc_, 'TwoSided', bs_) for pc_, (vr_, bs_) in extra_paths if vr_ == 'TwoSided' and t]
        for j, (pcj, _, bj) in enumerate(others):
            aj = [abs_c(x) for x in bj]
            for direction, (pa, ba, pb, bb) in (('orig-regular', (pc0, ab, pcj, aj)), ('orig-extra', (pcj, aj, pc0, ab))):
                hyx = [abs_c(c) for c in nokind(pa)] + [gneg(abs_c(c)) for c in nokind(pb)] + base
                m.submit('C16:unpaired:negate:cross-path%d:%s:%s' % (j, direction, tz), hyx, T.and_(T.mk('feq', gneg(bb[0]), T.mk('fneg', ba[1])), T.mk('feq', gneg(bb[1]), T.mk('fneg', ba[0]))),
                         key='C16:unpaired:negate', timeout=180, vacuity=False, note='negating both samples mirrors the interval, whichever branch either evaluation takes')
            # an Ok path for the negated data where the original data gives an error (or vice versa) breaks the mirror clause as well:
            # the negated state must satisfy the same path condition
            hyx = [abs_c(c) for c in nokind(pcj)] + base
            m.submit('C16:unpaired:negate:path%d-closed-under-negation:%s' % (j, tz), hyx, T.and_(*[gneg(abs_c(c)) for c in nokind(pcj)]) if nokind(pcj) else T.bconst(True),
                     key='C16:unpaired:negate', timeout=180, vacuity=False, note='if the data takes this branch, so does the negated data')
        sh = dict(shifted(d, 'a'))
        sh.update(shifted(d, 'b'))
        h = lambda x: rename(x, sh)
        hys = [abs_c(c) for c in nokind(pc0)] + [h(abs_c(c)) for c in nokind(pc0)] + base
        m.submit('C16:unpaired:common-shift-invariant:' + tz, hys, T.and_(T.mk('feq', h(ab[0]), ab[0]), T.mk('feq', h(ab[1]), ab[1])), key='C16:unpaired:shift', timeout=240, note='shifting both samples by d leaves the interval unchanged')
    m.collect()


def ieee(ctx, m):
    """fl(2a o 2b) = 2^k fl(a o b): + and - at F(5,11) (k = 1; no underflow issue); thorough tier: / at F(5,8) (k = 0, every finite a, nonzero b with
    finite doubled operands) and * at F(4,8) (k = 2, when a or b is zero or |fl(ab)| >= 2 * the smallest normal: a product rounded up INTO the normal
    range from below is the one place where scaling and rounding do not commute). F(5,11) for * and / does not finish in 900 s."""
    thorough = ctx.tier == 'thorough'
    jobs = [('add', 5, 11), ('sub', 5, 11)] + ([('div', 5, 8), ('mul', 4, 8)] if thorough else [])
    for op, eb, sb in jobs:
        FS = '(_ FloatingPoint %d %d)' % (eb, sb)
        two = '((_ to_fp %d %d) RNE 2.0)' % (eb, sb)
        four = '((_ to_fp %d %d) RNE 4.0)' % (eb, sb)
        minn = '(fp #b0 #b%s #b%s)' % ('0' * (eb - 1) + '1', '0' * (sb - 1))
        lines = ['(declare-const a %s)' % FS, '(declare-const b %s)' % FS,
                 '(define-fun fin ((x %s)) Bool (not (or (fp.isNaN x) (fp.isInfinite x))))' % FS,
                 '(define-fun a2 () %s (fp.mul RNE %s a))' % (FS, two), '(define-fun b2 () %s (fp.mul RNE %s b))' % (FS, two),
                 '(assert (and (fin a) (fin b) (fin a2) (fin b2)))']
        if op in ('add', 'sub'):
            lines += ['(define-fun r () %s (fp.%s RNE a b))' % (FS, op), '(define-fun r2 () %s (fp.%s RNE a2 b2))' % (FS, op),
                      '(assert (fin r2))', '(assert (not (fp.eq r2 (fp.mul RNE %s r))))' % two]
        elif op == 'div':
            lines += ['(define-fun r () %s (fp.div RNE a b))' % FS, '(define-fun r2 () %s (fp.div RNE a2 b2))' % FS, '(assert (not (fp.isZero b)))',
                      '(assert (not (fp.eq r2 r)))']
        else:
            lines += ['(define-fun r () %s (fp.mul RNE a b))' % FS, '(define-fun r2 () %s (fp.mul RNE a2 b2))' % FS, '(assert (fin r2))',
                      '(assert (or (fp.isZero a) (fp.isZero b) (fp.geq (fp.abs r) (fp.mul RNE %s %s))))' % (two, minn), '(assert (not (fp.eq r2 (fp.mul RNE %s r))))' % four]
        text = '\n'.join(lines) + '\n(check-sat)\n'
        fut = m.pool.submit(text, 'z3-new', 300, ctx.seed)
        m.pending.append({'name': 'C16:ieee-scaling:%s:F(%d,%d)' % (op, eb, sb), 'fut': fut, 'expect': 'unsat', 'key': 'C16:ieee-scaling', 'sem': ('F', eb, sb),
                          'note': 'fl(2a %s 2b) = 2^k fl(a %s b), all finite operands' % (op, op), 'text': text, 'on_sat': None, 'timeout': 300, 'solver': 'z3-new'})
    m.collect()
