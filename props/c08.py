"""C08 — compensated summation error is O(u * sum|x|), independent of the number of terms.
Engine M at reduced float width: the terms of kahan_add / KahanSum::{+=, merge, value, +} are extracted from the MIR of
the generic source and interpreted bit-precisely as (_ FloatingPoint eb sb); exact references are computed in
bit-vector fixed point (every finite value of a small format is an integer multiple of its smallest subnormal).
Per-step lemmas over EVERY finite register and addend (one inductive step from an arbitrary register):
  L1  |c'| <= 2u|t|                                   (the new compensation is a rounding-level quantity)
  L2  |(t - c') - (sum - c) - x| <= 2u|x| + 2u|c|      (the maintained quantity sigma = sum - c absorbs x up to O(u))
  L4  |value() - (sum - c)| <= 6u|sum|  for registers with |c| <= 2u|sum|
and term identities: `+= x` is kahan_add, `+= register` is two kahan_adds, `a + x` is `a += x`.
Composition (paper, part of the trusted base): telescoping L2 gives |sigma_n - sum x| <= 2u sum|x| + 2u sum|c_k|; L1 bounds
sum|c_k| <= 2u n max|t|, i.e. the n-dependence is confined to the u^2 term; L4 converts to value()."""
import itertools, os, re, time
from mirsmt import engine as E, term as T, mir, smt
from vlib import core

TRUSTED = ['lemmas are DECIDED only at the stated reduced formats (F(5,11) for L1/L4, F(3,4) [thorough: F(3,5)] for L2, cube-split over the exponent fields, one solver process per cube); the source is format-parametric (generic over Float), f32/f64 are outside the solver\'s bound',
           'exact references in bit-vector fixed point derived from the IEEE bit patterns', 'composition of the per-step lemmas into the n-term bound is a three-line telescoping argument (DESIGN.md C08), not machine-checked',
           'no overflow: every intermediate result finite (assumed in each lemma)', 'MIR call models listed under call_models_used', 'z3 5.1 (QF_BVFP)']


def fx_defs(name, eb, sb, W):
    mb = sb - 1
    return ('(define-fun {n}_e () (_ BitVec {eb}) ((_ extract {hi} {mb}) {n}_bv))\n'
            '(define-fun {n}_m () (_ BitVec {W}) ((_ zero_extend {zx}) ((_ extract {mb1} 0) {n}_bv)))\n'
            '(define-fun {n}_mag () (_ BitVec {W}) (ite (= {n}_e #b{z}) {n}_m (bvshl (bvor {n}_m (_ bv{hid} {W})) (bvsub ((_ zero_extend {ze}) {n}_e) (_ bv1 {W})))))\n'
            '(define-fun {n}_fx () (_ BitVec {W}) (ite (= ((_ extract {top} {top}) {n}_bv) #b1) (bvneg {n}_mag) {n}_mag))\n').format(
        n=name, eb=eb, hi=eb + mb - 1, mb=mb, W=W, zx=W - mb, mb1=mb - 1, z='0' * eb, hid=1 << mb, ze=W - eb, top=eb + mb)


def build(eb, sb, inputs, outputs, pcs, body, cube=None):
    """inputs: names; outputs: {name: term}; pcs: path condition terms. Returns SMT text with <name>_fx fixed-point values available."""
    W = 64
    em = smt.Emitter(('F', eb, sb))
    FS = em.FS
    lines = ['(set-logic QF_BVFP)']
    out_s = {k: em.emit(v) for k, v in outputs.items()}
    pc_s = [em.emit(c) for c in pcs]
    for v in inputs:
        lines.append('(declare-const %s_bv (_ BitVec %d))' % (v, eb + sb))
    decl = [d for d in em.decls.values()]
    lines += decl
    for v in inputs:
        lines.append('(assert (= %s ((_ to_fp %d %d) %s_bv)))' % (v, eb, sb, v))
        lines.append('(assert (not (or (fp.isNaN %s) (fp.isInfinite %s))))' % (v, v))
    for nm, sort, b in em.defs:
        lines.append('(define-fun %s () %s %s)' % (nm, sort, b))
    for k, s_ in out_s.items():
        lines.append('(declare-const %s_bv (_ BitVec %d))' % (k, eb + sb))
        lines.append('(assert (= %s ((_ to_fp %d %d) %s_bv)))' % (s_, eb, sb, k))
        lines.append('(assert (not (or (fp.isNaN %s) (fp.isInfinite %s))))' % (s_, s_))
    for c in pc_s:
        lines.append('(assert %s)' % c)
    for v in list(inputs) + list(outputs):
        lines.append(fx_defs(v, eb, sb, W))
    if cube:
        for v, e in cube.items():
            lines.append('(assert (= %s_e (_ bv%d %d)))' % (v, e, eb))
    lines.append(body)
    lines.append('(check-sat)')
    return '\n'.join(lines) + '\n'


ABS = lambda e: '(ite (bvslt {0} (_ bv0 64)) (bvneg {0}) {0})'.format(e)


def run(ctx):
    ctx.level = 'proof'
    ctx.trusted_base = TRUSTED
    ctx.assumptions += ['u = 2^-sb for the format (_ FloatingPoint eb sb); the lemmas quantify over all finite inputs of that format for which every intermediate result is finite',
                        'bounded end-to-end sums and the merge-tree growth of the value()/merge sign convention are discussed in DESIGN.md; the deciding obligations here are per-step',
                        'discrimination: the same L2 query on naive summation (compensation ignored) must be refuted, otherwise the lemma would not separate compensated from naive summation']
    m = E.MEngine(ctx)
    if not m.ok:
        return
    try:
        oblig(ctx, m)
    except mir.Stuck as e:
        m.stuck('C08:M', 'unsupported construct: %s' % e)
    m.finish()


def kahan_paths(m):
    f = m.fn('kahan_add')
    s, c, x = T.var('s'), T.var('c'), T.var('x')
    res = m.run(f, [('ref', 0, '_s', ()), ('f', x), ('ref', 0, '_c', ())], {'_s': ('f', s), '_c': ('f', c)})
    out = []
    for r in res:
        if r.kind == 'stuck':
            raise mir.Stuck(r.value[1])
        if r.kind == 'return':
            out.append((r.pc, r.store['_s'][1], r.store['_c'][1]))
    return out


def oblig(ctx, m):
    s, c, x = T.var('s'), T.var('c'), T.var('x')
    paths = kahan_paths(m)
    ctx.extra['kahan_add_paths'] = len(paths)
    y = T.mk('fsub', x, c)
    t_ref = T.mk('fadd', s, y)
    c_ref = T.mk('fsub', T.mk('fsub', t_ref, s), y)
    if len(paths) == 1 and not paths[0][0] and paths[0][1] == t_ref and paths[0][2] == c_ref:
        ctx.record('C08:kahan_add:term-identity', 'M', 'held', bound='syntactic', sample={'obligation': 'kahan_add: y = x - c; t = sum + y; c\' = (t - sum) - y', 'verdict': 'same DAG'})
    else:
        ctx.record('C08:kahan_add:term-identity', 'M', 'note', detail='kahan_add is not the textbook three-liner (%d paths): the lemmas below decide whether it still sums correctly' % len(paths))
    # ---- register operations are kahan_add applications
    jobs = list(reg_ident(ctx, m, paths) or [])
    # ---- lemmas on every path of kahan_add
    thorough = ctx.tier == 'thorough'
    for i, (pc, t, c2) in enumerate(paths):
        tag = '' if len(paths) == 1 else ':path%d' % i
        outs = {'t': t, 'c2': c2}
        L1 = '(assert (not (bvsle (bvshl %s (_ bv%d 64)) (bvmul (_ bv2 64) %s))))' % (ABS('c2_fx'), 11, ABS('t_fx'))
        jobs.append(('C08:L1:compensation-small:F(5,11)' + tag, build(5, 11, ['s', 'c', 'x'], outs, pc, L1), 300, 'C08:L1'))
        fmts = [(3, 4)] + ([(3, 5)] if thorough else [])
        for (eb, sb) in fmts:
            d = '(bvsub (bvsub (bvsub t_fx c2_fx) (bvsub s_fx c_fx)) x_fx)'
            L2 = '(assert (not (bvsle (bvshl %s (_ bv%d 64)) (bvadd (bvmul (_ bv2 64) %s) (bvmul (_ bv2 64) %s)))))' % (ABS(d), sb, ABS('x_fx'), ABS('c_fx'))
            for cu in itertools.product(range(2 ** eb - 1), repeat=3):
                jobs.append(('C08:L2:defect:F(%d,%d)%s' % (eb, sb, tag), build(eb, sb, ['s', 'c', 'x'], outs, pc, L2, cube=dict(zip('scx', cu))), 120, 'C08:L2'))
    # L4: value() vs the maintained quantity
    fv_ = m.fn('value', 'KahanSum', 'inherent')
    ref, extra = E.self_ref(E.kahan('s', 'c'))
    vr = [r for r in m.run(fv_, [ref], extra) if r.kind == 'return']
    if len(vr) == 1:
        pre = '(assert (bvsle (bvshl %s (_ bv11 64)) (bvmul (_ bv2 64) %s)))' % (ABS('c_fx'), ABS('s_fx'))
        L4 = pre + '\n(assert (not (bvsle (bvshl %s (_ bv11 64)) (bvmul (_ bv6 64) %s))))' % (ABS('(bvsub v_fx (bvsub s_fx c_fx))'), ABS('s_fx'))
        jobs.append(('C08:L4:value-close-to-maintained-sum:F(5,11)', build(5, 11, ['s', 'c'], {'v': vr[0].value[1]}, vr[0].pc, L4), 300, 'C08:L4'))
    else:
        m.stuck('C08:L4', 'KahanSum::value paths')
    # L3: merging two registers (each with a rounding-level compensation): the maintained quantity of the result is the sum of the
    # maintained quantities up to 8u * the SMALLER operand + 4u * the compensations + 8u^2 |result| - on every path of the merge.
    # A first-order defect in the LARGER operand would let a chain of merges accumulate O(n u) error.
    fm = [f for f in m.fns if f.short == 'add_assign' and 'utils' in f.name and len(f.args) == 2 and 'KahanSum' in f.args[1][1]]
    if len(fm) == 1:
        ref, extra = E.self_ref(E.kahan('s', 'c'))
        mres = m.run(fm[0], [ref, E.kahan('rs', 'rc')], extra)
        if any(r.kind == 'stuck' for r in mres):
            m.stuck('C08:L3', [r for r in mres if r.kind == 'stuck'][0].value[1])
        for (eb, sb) in ([(3, 4)] + ([(3, 5)] if thorough else [])):
          for i, r in enumerate([r for r in mres if r.kind == 'return']):
              st_ = r.store['_self']
              S_, C_ = st_[3][0][1], st_[3][1][1]
              pre = '(assert (bvsle (bvshl %s (_ bv%d 64)) (bvmul (_ bv2 64) %s)))\n(assert (bvsle (bvshl %s (_ bv%d 64)) (bvmul (_ bv2 64) %s)))' % (ABS('c_fx'), sb, ABS('s_fx'), ABS('rc_fx'), sb, ABS('rs_fx'))
              d = '(bvsub (bvsub (bvsub S_fx C_fx) (bvsub s_fx c_fx)) (bvsub rs_fx rc_fx))'
              mn = '(ite (bvsle %s %s) %s %s)' % (ABS('s_fx'), ABS('rs_fx'), ABS('s_fx'), ABS('rs_fx'))
              # |defect| <= 8u min(|s|,|rs|) + 4u(|c|+|rc|) + 8u^2|S|, scaled by 2^(2 sb): the compensation of the SMALLER register may enter at full
              # size (value() vs maintained-quantity sign convention; it is <= 2u min by the premise), the accumulator's only at O(u)
              body = pre + '\n(assert (not (bvsle (bvshl %s (_ bv%d 64)) (bvadd (bvshl (bvadd (bvmul (_ bv8 64) %s) (bvmul (_ bv4 64) (bvadd %s %s))) (_ bv%d 64)) (bvmul (_ bv8 64) %s)))))' % (
                  ABS(d), 2 * sb, mn, ABS('c_fx'), ABS('rc_fx'), sb, ABS('S_fx'))
              for cu in itertools.product(range(2 ** eb - 1), repeat=2):
                  jobs.append(('C08:L3:merge-defect-first-order-in-the-smaller-operand:F(%d,%d)' % (eb, sb) + ('' if i == 0 else ':path%d' % i),
                               build(eb, sb, ['s', 'c', 'rs', 'rc'], {'S': S_, 'C': C_}, r.pc, body, cube=dict(zip(['s', 'rs'], cu))), 180, 'C08:L3'))
    else:
        m.stuck('C08:L3', 'AddAssign<KahanSum> not found')
    # discrimination witness: naive summation (t = sum + x, no compensation) must violate L2's analogue |t - s - x| <= 2u|x| ... it does not hold:
    naive_t = T.mk('fadd', s, x)
    dn = '(bvsub (bvsub t_fx s_fx) x_fx)'
    Ln = '(assert (not (bvsle (bvshl %s (_ bv4 64)) (bvmul (_ bv2 64) %s))))' % (ABS(dn), ABS('x_fx'))
    jobs.append(('C08:discrimination:naive-sum-refuted:F(3,4)', build(3, 4, ['s', 'x'], {'t': naive_t}, [], Ln), 120, 'C08:discrimination', 'sat'))
    run_jobs(ctx, m, jobs)


def run_jobs(ctx, m, jobs):
    futs = []
    for j in jobs:
        name, text, tmo, key = j[:4]
        expect = j[4] if len(j) > 4 else 'unsat'
        futs.append((name, key, expect, m.pool.submit(text, 'z3-new', tmo, ctx.seed, portfolio=1), text))
    agg = {}
    for name, key, expect, fut, text in futs:
        verdict, out, dt = fut.result()
        ctx.solver_time += dt
        a = agg.setdefault(name, {'n': 0, 'ok': 0, 'bad': [], 'und': 0, 't': 0.0, 'key': key, 'expect': expect, 'worst': 0.0})
        a['n'] += 1
        a['t'] += dt
        a['worst'] = max(a['worst'], dt)
        if verdict == expect:
            a['ok'] += 1
        elif verdict in ('sat', 'unsat'):
            a['bad'].append((text, out))
        else:
            a['und'] += 1
    for name, a in agg.items():
        if a['ok'] == a['n']:
            ctx.record(name, 'M', 'held', key=a['key'], time_s=a['t'], bound='%d solver queries (cubes), worst %.1fs' % (a['n'], a['worst']),
                       sample={'obligation': name, 'queries': a['n'], 'verdict': a['expect'], 'cpu_s': round(a['t'], 1)})
        elif a['bad'] and a['expect'] == 'unsat':
            text, out = a['bad'][0]

            def reproduce(name=name):
                return native_battery(ctx, name)
            v = ctx.classify(a['key'], 'lemma "%s" refuted by z3 at the reduced format (%d of %d cubes)' % (name, len(a['bad']), a['n']), reproduce)
            ctx.record(name, 'M', {'violation': 'violated', 'known': 'known-finding', 'inconclusive': 'inconclusive'}[v], key=a['key'], time_s=a['t'])
        elif a['bad']:
            ctx.record(name, 'M', 'inconclusive', key=a['key'], detail='discrimination witness not found: the lemma does not separate compensated from naive summation')
            ctx.inconclusive.append(name + ': expected sat')
        else:
            ctx.record(name, 'M', 'inconclusive', key=a['key'], detail='%d of %d queries undecided' % (a['und'], a['n']))
            ctx.inconclusive.append('%s: %d of %d cube queries undecided (a subset of cubes is never reported as the format)' % (name, a['und'], a['n']))


def reg_ident(ctx, m, paths):
    """`KahanSum += x`, `KahanSum += KahanSum`, `KahanSum + x` expressed through kahan_add (term identities on the single-path source)."""
    extra_jobs = []
    if len(paths) != 1 or paths[0][0]:
        return extra_jobs
    _, t, c2 = paths[0]
    s, c, x = T.var('s'), T.var('c'), T.var('x')

    def kah(ss, cc, v):
        return T.substitute(t, {s: ss, c: cc, x: v}), T.substitute(c2, {s: ss, c: cc, x: v})
    regs = [f for f in m.fns if f.short == 'add_assign' and 'utils' in f.name]
    reg = lambda v: (v[3][0][1], v[3][1][1])
    results = {}
    for f in regs:
        is_reg = 'KahanSum' in f.args[1][1]
        ref, extra = E.self_ref(E.kahan('s', 'c'))
        arg = E.kahan('rs', 'rc') if is_reg else ('f', x)
        rs = [r for r in m.run(f, [ref, arg], extra) if r.kind == 'return']
        if not rs:
            m.stuck('C08:register:add_assign', 'paths')
            continue
        if is_reg:
            s1, c1 = kah(s, c, T.var('rs'))
            fwd = kah(s1, c1, T.var('rc'))
            s2, c2_ = kah(T.var('rs'), T.var('rc'), s)
            bwd = kah(s2, c2_, c)
            nm = 'C08:register:merge-is-two-kahan_adds'
            good = all(reg(r.store['_self']) in (fwd, bwd) for r in rs)
        else:
            want = kah(s, c, x)
            nm = 'C08:register:add-assign-value-is-kahan_add'
            good = len(rs) == 1 and reg(rs[0].store['_self']) == want
            if good:
                results['addassign'] = want
        if good:
            ctx.record(nm, 'M', 'held', bound='syntactic', sample={'obligation': nm, 'paths': len(rs), 'verdict': 'same DAG'})
        else:
            m.violated_structurally(nm, nm, 'register update is not the compensated addition', replay=lambda model, p, nm=nm: native_battery(ctx, nm))
    # by-value `+`
    adds = [f for f in m.fns if f.short == 'add' and 'utils' in f.name]
    for f in adds:
        try:
            rs = [r for r in m.run(f, [E.kahan('s', 'c'), ('f', x)]) if r.kind in ('return', 'stuck')]
        except mir.Stuck:
            rs = []
        nm = 'C08:register:plus-is-add-assign'
        if len(rs) == 1 and rs[0].kind == 'return' and 'addassign' in results and reg(rs[0].value) == results['addassign']:
            ctx.record(nm, 'M', 'held', bound='syntactic', sample={'obligation': 'KahanSum + x == { r = self; r += x; r }', 'verdict': 'same DAG'})
        elif not rs or rs[0].kind == 'stuck':
            # the by-value operator could not be reduced to `+=` symbolically: let the native battery decide whether it still sums correctly
            why = rs[0].value[1] if rs else 'no path'
            v = ctx.classify(nm, '`KahanSum + x` is not (recognisably) `+=`: %s' % why, lambda: native_battery(ctx, nm))
            ctx.record(nm, 'M', {'violation': 'violated', 'known': 'known-finding', 'inconclusive': 'inconclusive'}[v], key=nm, detail=why[:200])
        elif all(r.kind == 'return' for r in rs):
            # not the same DAG as `+=` (e.g. implemented through the register merge): decide it semantically. On every path of `a + x`, from a
            # register with a rounding-level compensation: the maintained quantity absorbs x up to 8u|x| + 4u|c| + 8u^2|S| (first-order in the
            # ADDEND only; the old compensation may only enter at O(u): an operator that drops it - first-order |c| ~ u|sum| per step - is
            # refuted), so a stream folded with `+` stays O(u sum|x|) + O(n u^2); and the new compensation is again rounding-level.
            ctx.record(nm + ':dag', 'M', 'note', detail='`KahanSum + x` is not the DAG of `+=` (%d paths): decided by the lemma plus-absorbs-x instead' % len(rs))
            eb, sb = 3, 4
            for i, r in enumerate(rs):
                S_, C_ = reg(r.value)
                pre = '(assert (bvsle (bvshl %s (_ bv%d 64)) (bvmul (_ bv2 64) %s)))' % (ABS('c_fx'), sb, ABS('s_fx'))
                d = '(bvsub (bvsub (bvsub S_fx C_fx) (bvsub s_fx c_fx)) x_fx)'
                # |defect| <= 8u|x| + 4u|c| + 8u^2|S|   (all scaled by 2^(2 sb));   |C| <= 2u|S|
                goal = '(and (bvsle (bvshl %s (_ bv%d 64)) (bvadd (bvshl (bvadd (bvmul (_ bv8 64) %s) (bvmul (_ bv4 64) %s)) (_ bv%d 64)) (bvmul (_ bv8 64) %s))) (bvsle (bvshl %s (_ bv%d 64)) (bvmul (_ bv2 64) %s)))' % (
                    ABS(d), 2 * sb, ABS('x_fx'), ABS('c_fx'), sb, ABS('S_fx'), ABS('C_fx'), sb, ABS('S_fx'))
                for cu in itertools.product(range(2 ** eb - 1), repeat=2):
                    extra_jobs.append(('C08:register:plus-absorbs-x-first-order-in-x:F(%d,%d)' % (eb, sb) + ('' if i == 0 else ':path%d' % i),
                                       build(eb, sb, ['s', 'c', 'x'], {'S': S_, 'C': C_}, r.pc, pre + '\n(assert (not %s))' % goal, cube=dict(zip(['s', 'x'], cu))), 180, nm))
        else:
            m.violated_structurally(nm, nm, '`KahanSum + x` does not accumulate x into the left register like `+=`', replay=lambda model, p: native_battery(ctx, nm))
    return extra_jobs


def native_battery(ctx, what):
    """Native confirmation: long compensated sums through the real code against exact rational sums, bound 8u*sum|x|."""
    from vlib import native
    from fractions import Fraction
    import struct
    drv = native.Driver.get(ctx)
    f32 = lambda v: struct.unpack('<f', struct.pack('<f', v))[0]
    cases = [('f32', 'rmerge3', 0.0, 1.1, 600000), ('f32', 'addassign', 1.0, 5e-8, 2000000), ('f32', 'addassign', 0.0, 0.1, 1000000), ('f32', 'plus', 0.0, 0.1, 1000000), ('f32', 'merge7', 0.0, 0.1, 1050000),
             ('f64', 'addassign', 1.0, 1e-17, 1000000), ('f32', 'addassign', 0.0, -0.3, 500000)]
    for ty, mode, x0, xv, cnt in cases:
        a0, a = (f32(x0), f32(xv)) if ty == 'f32' else (x0, xv)
        cmd = 'kahan_rep %s %s %s %s %d' % (ty, mode, native.bits(a0), native.bits(a), cnt)
        out = drv.run([cmd])[0]
        if not out.startswith('0x'):
            continue
        got = native.unbits(out)
        exact = Fraction(a0) + cnt * Fraction(a)
        u = Fraction(1, 2 ** (24 if ty == 'f32' else 53))
        bound = 8 * u * (abs(Fraction(a0)) + cnt * abs(Fraction(a)))
        if abs(Fraction(got) - exact) > bound:
            path = native.save(ctx, what, {'property': ctx.pid, 'what': what, 'command': cmd, 'native': got, 'exact': float(exact), 'bound_8u_sum_abs': float(bound),
                                           'deviation': 'compensated sum off by %.3e, allowed %.3e' % (float(abs(Fraction(got) - exact)), float(bound))})
            return True, path, 'native sum %r vs exact %r' % (got, float(exact))
    return False, None, 'native long sums stay within 8u*sum|x| on the battery'
