"""C19 — approximate interval equality is kind-aware and bound-wise; Display is canonical (engine K)."""
from vlib import core


def run(ctx):
    ctx.level = 'model_checking'
    ctx.functions += ['<Interval<T> as approx::AbsDiffEq>::{abs_diff_eq,default_epsilon}', '<Interval<T> as approx::RelativeEq>::{relative_eq,default_max_relative}',
                      '<Interval<T> as approx::UlpsEq>::{ulps_eq,default_max_ulps}', '<Interval<T> as Display>::fmt']
    ctx.assumptions += [
        'element type of the approximate-equality harnesses: an opaque token E whose AbsDiffEq/RelativeEq/UlpsEq are symbolic truth tables (64 symbolic bits each) over a 2-bit value domain and 1-2 bit tolerance domains; the generic interval code cannot distinguish it from f64, and every element relation (reflexive or not) is covered',
        'the f64 instantiation is additionally decided for exactly equal bounds and across kinds with infinite tolerances; recomputing approx\'s f64 arithmetic for near-equal bounds in SAT exceeded 600 s (DESIGN.md §0) and is outside the bound',
        'Display: token element type writing one byte; fixed 16-byte buffer; unwind 18 covers core::fmt loops; the element type\'s own formatting is used verbatim (one byte here)',
    ]
    core.run_kani_set(ctx, ['c19_'], bound='symbolic element relation (2-bit domain); Display unwind 18', harness_timeout=900)
    if ctx.tier == 'thorough':
        # thorough tier: the same harnesses decided a second time by an independent SAT solver (kissat instead of CaDiCaL)
        core.run_kani_set(ctx, ['c19_'], bound='symbolic element relation (2-bit domain); Display unwind 18', harness_timeout=2700, solver='kissat')
