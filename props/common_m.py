"""Shared extraction helpers for the engine-M obligations."""
import re
from mirsmt import engine as E, term as T, mir

L = T.var('L')
KIND = T.var('kind', 'i')
LEVEL_OK = [T.mk('flt', T.fconst(0), L), T.mk('flt', L, T.fconst(1))]
KNAME = ['two-sided', 'upper', 'lower']
VARIANT = ['TwoSided', 'UpperOneSided', 'LowerOneSided']


def quantile_of(k, level=L):
    """(1+L)/2 for two-sided, L for one-sided"""
    return T.mk('fdiv', T.mk('fadd', T.fconst(1), level), T.fconst(2)) if k == 0 else level


def apps_in(t, name=None):
    out = []

    def pred(x):
        if x[0] == 'app' and (name is None or x[1] == name):
            out.append(x)
        return False
    T.contains(t, pred)
    return list(dict.fromkeys(out))


def abstract_apps(t, mapping):
    """replace oracle applications by the given variables: mapping {oracle name: term}"""
    return T.walk(t, lambda op, args, old: mapping[old[1]] if op == 'app' and old[1] in mapping else T.mk(op, *args))


def rename(t, ren):
    """rename variables {old name: new term}"""
    return T.walk(t, lambda op, args, old: ren[old[1]] if op in ('fvar', 'ivar') and old[1] in ren else T.mk(op, *args))


def proportion_paths(m, fname, nvar='n', kvar='k'):
    """Run ci_wilson / ci_z_normal with symbolic (confidence, n, k). Returns list of dict(pc, kind, value, result)."""
    f = m.fn(fname)
    res = m.run(f, [E.confidence(), E.iv(nvar), E.iv(kvar)])
    out = []
    for r in res:
        out.append({'r': r, 'pc': r.pc, 'kind': E.pc_kind(r.pc), 'value': r.value, 'rk': r.kind})
    return out


def check_oracle_args(m, prefix, pc, bounds, k, oracle, extra_arg=None, hyps=()):
    """Every application of the oracle inside the returned bounds is applied to quantile(conf) (and `extra_arg`)."""
    q = quantile_of(k)
    n = 0
    for b in bounds:
        for a in apps_in(b, oracle):
            goal = T.mk('feq', a[2], q)
            if extra_arg is not None and len(a) > 3:
                goal = T.and_(goal, T.mk('feq', a[3], extra_arg))
            m.submit('%s:oracle-args:%s' % (prefix, KNAME[k]), list(pc) + LEVEL_OK + list(hyps), goal, key='%s:oracle-args' % prefix,
                     note='%s applied to (1+L)/2 (two-sided) / L (one-sided)%s' % (oracle, ' and the stated degrees of freedom' if extra_arg is not None else ''))
            n += 1
    return n


def arith_ci_paths(m, suffix='', conf=None):
    """Ok paths of Arithmetic::ci_mean on a symbolic state: {(kind, uses_t): (pc, variant, bounds)} plus all results."""
    f = m.fn('ci_mean', 'Arithmetic', 'inherent')
    ref, extra = E.self_ref(E.arith(suffix))
    res = m.run(f, [ref, conf or E.confidence()], extra)
    by = {}
    for r in res:
        if r.kind == 'stuck':
            raise mir.Stuck(r.value[1])
        if r.kind == 'return' and E.is_ok(r.value):
            variant, bounds = E.interval_parts(r.value)
            k = E.pc_kind(r.pc)
            t = bool(any(apps_in(b, 'Tq') for b in bounds))
            by[(k, t)] = (r.pc, variant, bounds)
            ALL_PATHS.setdefault(id(m), {}).setdefault(suffix, {}).setdefault((k, t), []).append((r.pc, variant, bounds))
    return by, res


ALL_PATHS = {}


def arith_ci_all_paths(m, suffix=''):
    """{(kind, uses_t): [(pc, variant, bounds), ...]} - every Ok path (a change may split one path into several)"""
    if id(m) not in ALL_PATHS or suffix not in ALL_PATHS[id(m)]:
        arith_ci_paths(m, suffix)
    return ALL_PATHS[id(m)].get(suffix, {})


def abs_c(t, C=None):
    C = C or T.var('C')
    return T.walk(t, lambda op, args, old: C if op == 'app' else T.mk(op, *args))


def sqrt_witness_free(terms):
    """R-semantics helper: nothing to do, the emitter introduces sqrt witnesses itself."""
    return terms


def nokind(pc, var='kind'):
    """drop the discriminant atoms of the symbolic confidence (needed when paths of different kinds are combined)"""
    kv = T.var(var, 'i')
    return [c for c in pc if not T.contains(c, lambda t: t == kv)]


def oracle_guard(ctx, m, prefix, pc, bounds, names=('Tq', 'Zq')):
    """Every returned finite bound must obtain its critical value from the statrs oracle in THIS call. A path whose bounds
    carry no oracle application took the critical value from somewhere else (a cache, a constant): reported, and confirmed
    natively by the history battery (same call after different earlier calls)."""
    has = any(apps_in(b, n) for b in bounds for n in names)
    if has:
        return True
    from vlib import native
    from mirsmt import smt

    def replay(model, p):
        ok, path, note = native.confirm_history(ctx, prefix)
        if ok:
            return ok, path, note
        # not a history effect: take a concrete input of this path (solve its path condition over the integers) and compare
        # the native result with the reference formula
        try:
            text = m.query_text(list(pc) + LEVEL_OK, None, sem=('R', 'int'))
            verdict, out, dt = smt.run_solver(text, 'z3-new', 60, ctx.seed)
            mdl = smt.parse_model(out) if verdict == 'sat' else {}
        except Exception:
            mdl = {}
        if re.search(r'z_normal|wald', prefix):
            return native.replay_proportion(ctx, mdl, prefix, 'wald')
        if re.search(r'wilson', prefix):
            return native.replay_proportion(ctx, mdl, prefix, 'wilson')
        if re.search(r'unpaired', prefix):
            return native.replay_unpaired(ctx, mdl, prefix)
        return native.replay_arith(ctx, mdl, prefix)
    m.violated_structurally(prefix + ':critical-value-not-from-the-oracle', prefix + ':critical-value-source',
                            'an Ok path returns bounds whose critical value is not an application of the quantile function in this call (free symbols: %s)' % sorted(set(v for b in bounds for v in T.free_vars(b)))[:6],
                            replay=replay)
    return False
