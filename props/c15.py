"""C15 — interval comparison is a strict partial order consistent with equality (engine K, full width)."""
from vlib import core


def run(ctx):
    ctx.level = 'model_checking'
    ctx.functions += ['<Interval<T> as PartialOrd>::partial_cmp', '<Interval<T> as PartialEq>::eq (derived)', 'lt/le/gt/ge via partial_cmp']
    ctx.assumptions += [
        'instantiation decided: Interval<i8>, every ordered pair (laws over pairs) and every ordered triple (transitivity); a 256-element chain realises every relative order of six bounds',
        'two-sided inputs satisfy low <= high; oracle: sup/inf with sentinels outside the i8 range',
        'no unwinding or value-range bound',
    ]
    core.run_kani_set(ctx, ['c15_'], bound='all i8 triples, no unwind bound', harness_timeout=600)
    if ctx.tier == 'thorough':
        # thorough tier: the same harnesses decided a second time by an independent SAT solver (kissat instead of CaDiCaL)
        core.run_kani_set(ctx, ['c15_'], bound='all i8 triples, no unwind bound', harness_timeout=1800, solver='kissat')
