"""C11 — invalid input yields the documented error: never a panic or a NaN interval (engine K).
State-level harnesses (arbitrary accumulator fields = the state after any history) plus API-level harnesses
(<= 3-5 symbolic observations through the public entry points)."""
from vlib import core

PANICS = {'c11_stats_new_invalid_panics': [r'Number of successes must not be larger than population size']}

QUICK = ['c11_', 'c02_wilson_domain', 'c02_z_normal_domain', 'c02_is_significant', 'c05_geometric_append', 'c05_harmonic_append', 'c05_append_rejects',
         'c04_paired_extend_length_mismatch']
THOROUGH = ['t11_']


def run(ctx):
    ctx.level = 'model_checking'
    ctx.functions += ['mean::Arithmetic::{ci,ci_mean,sample_mean,sample_variance,sample_std_dev,sample_sem}', 'mean::{Harmonic,Geometric}::{append,ci_mean}', 'comparison::Paired::{extend,ci_mean}', 'comparison::Unpaired::ci_mean',
                      'proportion::{ci_wilson,ci_wilson_ratio,ci_z_normal,is_significant,Stats::new}', 'quantile::{ci,ci_max_size,ci_sorted_unchecked,ci_indices,Stats::ci,Stats::index}', 'stats::{t_value,z_value,interval_bounds}', 'Interval::new']
    ctx.assumptions += [
        'confidence levels in [0.001, 0.9999] (the range the property quantifies over), all three kinds',
        'environment stubs: statrs inverse CDFs at the trait-impl boundary return an arbitrary finite value with the sign contract of a quantile (|z| <= 40, |t| <= 1e300); StudentsT::new / Normal::new stay real so the unwrap() in t_value can still panic',
        'ln/exp of f64 replaced by contract stubs (Kani\'s built-in models are over-approximations that return NaN for valid inputs)',
        'state level: arbitrary (sum, compensation, sum_sq, compensation_sq, count) incl. count 0/1, NaN and infinite sums -- covers every history; API level: <= 3 observations of arbitrary f64 (NaN, +-inf, 0, negative at every position) through Arithmetic::ci; unwind 5-7',
        'decompositions: Unpaired::ci_mean with sample_mean/sample_std_dev replaced by arbitrary values (closed by c11_arith_sample_stats_total_when_nonempty); Harmonic/Geometric::ci_mean on top of an arbitrary well-formed arithmetic result (closed by c11_arith_ci_mean_state_*); quantile entry points with ci_wilson replaced by its contract (closed by c02_wilson_domain_all_usize)',
        'documented panics checked as such: Stats::new with successes > population; sorting incomparable elements and capacity overflow are outside the harness data (u8 elements, len <= CAP)',
        'data longer than 3 (5 for quantiles) is outside the API-level bound but inside the state-level one',
    ]
    core.run_kani_set(ctx, QUICK, bound='arbitrary states; API data <= 3 (quantile <= 5) items; all usize counts', harness_timeout=1500, expected_fail=PANICS)
    if ctx.tier == 'thorough':
        core.run_kani_set(ctx, THOROUGH, bound='thorough tier', harness_timeout=3000)
