"""C20 — every advertised feature set builds; serialized state round-trips losslessly.
(1) feature matrix: the encoder's own build step run under each advertised feature set (compilation, not solving);
(2) engine K under all features: real serde derive output against an in-harness binary (de)serializer."""
import os, re
from vlib import core

MATRIX = [('default', None), ('std', 'std'), ('std+approx', 'std,approx'), ('std+serde', 'std,serde'), ('all', 'std,approx,serde')]


def run(ctx):
    ctx.level = 'model_checking'
    ctx.functions += ['Cargo.toml [features]', 'serde derives of Confidence, Interval<T>, utils::KahanSum<T>, mean::{Arithmetic,Harmonic,Geometric}<F>, comparison::{Paired,Unpaired}<T>, proportion::Stats']
    ctx.assumptions += [
        'feature matrix = `cargo build --lib` of a scratch copy of /repo under each advertised feature set; this step is compilation, not solving, and is labelled so',
        'round trip format: an in-harness binary Serializer/Deserializer (struct = field sequence, enum = variant index + payload, f64/f32/u64 as raw bits) over a fixed [u64; 24] buffer; other serde formats are outside the bound, the derive output under test is the same',
        'states are arbitrary field values (any point of any accumulation history, non-zero compensation included, NaN payloads included); equality is bitwise on every field, from which equal statistics, equal intervals and identical continuation follow by determinism of the (pure, forbid(unsafe_code)) operations; those are deliberately not re-executed on both copies (float miter)',
        'quantile::Stats has no serde derive and is not in the property\'s list',
    ]
    sc = core.Scratch(features=None, harness_dirs=False, tag='.fm')
    for name, feats in MATRIX:
        cmd = ['cargo', 'build', '--offline', '--lib']
        if feats is not None:
            cmd += ['--no-default-features', '--features', feats]
        rc, out, dt = core.sh(cmd, cwd=sc.dir, timeout=900)
        if rc == 0:
            ctx.record('build[%s]' % name, 'compile', 'held', time_s=dt, bound='cargo build --lib', sample={'features': name, 'cmd': ' '.join(cmd), 'result': 'compiled', 'time_s': round(dt, 1)})
        else:
            key = 'C20:build:' + name
            errs = '\n'.join(re.findall(r'^error.*(?:\n.*){0,6}', out, re.M)[:6])

            def reproduce(name=name, cmd=cmd, out=out):
                d = os.path.join(core.REPLAY_DIR, 'C20')
                os.makedirs(d, exist_ok=True)
                path = os.path.join(d, 'build_%s.txt' % re.sub(r'\W', '_', name))
                with open(path, 'w') as fh:
                    fh.write('# feature set %s does not compile. Re-run in a copy of /repo:\n#   %s\n\n%s\n' % (name, ' '.join(cmd), out[-6000:]))
                return True, path, ''
            v = ctx.classify(key, 'feature set "%s" does not build: %s' % (name, errs[:300].replace('\n', ' | ')), reproduce)
            ctx.record('build[%s]' % name, 'compile', {'violation': 'violated', 'known': 'known-finding'}.get(v, 'inconclusive'), key=key, time_s=dt)
    sc.cleanup()
    if any(r['name'] in ('build[all]', 'build[std+serde]') and r['status'] != 'held' for r in ctx.records):
        ctx.record('serde round trips', 'K', 'not-run', detail='the serde feature does not compile, so there is no encoding to check')
        return
    core.run_kani_set(ctx, ['c20_'], bound='arbitrary field values; buffer 24 words; unwind 26', harness_timeout=900, features='std,approx,serde')
