"""C14 — well-formed intervals, lossless accessors/conversions (engine K, full width)."""
from vlib import core


def run(ctx):
    ctx.level = 'model_checking'
    ctx.functions += ['Interval::{new,new_upper,new_lower}', 'TryFrom<(T,T)>', 'TryFrom<(Option<T>,Option<T>)>', 'TryFrom<RangeInclusive<T>>', 'From<RangeFrom<T>>', 'From<RangeToInclusive<T>>',
                      'From<Interval<T>> for (Option<T>,Option<T>)', 'From<Interval<$int|$float>> for ($x,$x)', 'Interval::{low,high,left,right,low_as_ref,high_as_ref,low_f,high_f,low_i,high_i,low_u,high_u}',
                      'Interval::{is_two_sided,is_one_sided,is_upper,is_lower,is_degenerate,width}', 'Clone/Copy/PartialEq/Hash for Interval']
    ctx.assumptions += [
        'instantiations decided: i8 (all values), u8 (all values), i32 in +-10^6 for width (so that high-low cannot overflow), f64 all non-NaN values bit-exactly (moves and compares only), f32 all finite values for width (one recomputed subtraction), a non-Copy ordered newtype Word(u8,u8)',
        'NaN bounds are outside the property ("ordered, equal, inverted" pairs)',
        'Hash is observed as the byte stream fed to a recording Hasher (i8 element type); unwind 26 covers the 24-byte buffer loop',
    ]
    core.run_kani_set(ctx, ['c14_'], bound='full width per instantiation (see assumptions)', harness_timeout=600)
    if ctx.tier == 'thorough':
        # thorough tier: the same harnesses decided a second time by an independent SAT solver (kissat instead of CaDiCaL)
        core.run_kani_set(ctx, ['c14_'], bound='full width per instantiation (see assumptions)', harness_timeout=1800, solver='kissat')
