"""C03 — quantile CI is the order statistics at the Wilson ranks, whatever the data order (engine K)."""
from vlib import core


def run(ctx):
    ctx.level = 'model_checking'
    ctx.functions += ['quantile::{ci,ci_max_size,ci_sorted_unchecked,ci_indices}', 'quantile::Stats::{ci,index,new}', 'arrayvec/Vec sort_by as compiled']
    ctx.assumptions += [
        'element selection / order independence / entry-point agreement: u8 elements (ties included), samples of exactly 4 and 5 elements (Vec-based ci: 4), every permutation and multiset implicitly (symbolic arrays); ci_indices replaced by "any in-range index pair of the requested kind, or an error" (decomposition closed by the rank harnesses); unwind 7',
        'rank arithmetic: Stats::ci / Stats::index with ci_wilson replaced by its contract "any 0 <= lo <= k/n <= hi <= 1 of the documented shape, or the documented domain errors" (closed by C02 and C17 on the real ci_wilson); every double q, NaN included; n symbolic <= 12 (thorough: <= 64) plus concretised n in {3, 15, 100, 4097} (thorough: 1000, 8193 [structure] / 10007 [bracket], 65536) because multiplication by a symbolic n does not finish in SAT for large n',
        'float / char / string element types differ only in their PartialOrd and are outside the decided instantiations',
        'a 20-element sample is decided with concrete scrambled data (distinct u16 values) and symbolic ranks/kinds: every rank pair l <= h < 20; samples above 20 elements are outside the element-level bound (48 concrete elements did not finish in 900 s); the rank arithmetic does not depend on the data',
    ]
    core.run_kani_set(ctx, ['c03_', 'c06_wilson_quantile_per_call', 'c02_wilson_outcome_class'], bound='data 4-5 elements of u8; n <= 12 symbolic + grid', harness_timeout=900)
    if ctx.tier == 'thorough':
        core.run_kani_set(ctx, ['t03_'], bound='n <= 64 symbolic + larger grid', harness_timeout=3000)
    # engine M: the Wilson bounds the ranks are computed from obtain their critical value from the oracle in THIS call
    from mirsmt import engine as E, mir
    from props.common_m import proportion_paths, oracle_guard
    m = E.MEngine(ctx)
    if m.ok:
        try:
            n_ok = 0
            for p in proportion_paths(m, 'ci_wilson'):
                if p['rk'] == 'stuck':
                    m.stuck('C03:wilson:path', p['value'][1])
                elif p['rk'] == 'return' and E.is_ok(p['value']):
                    variant, bounds = E.interval_parts(p['value'])
                    if oracle_guard(ctx, m, 'C03:wilson', p['pc'], bounds):
                        n_ok += 1
            if n_ok:
                ctx.record('C03:wilson:critical-value-from-the-oracle', 'M', 'held', bound='structural, all Ok paths of ci_wilson', sample={'obligation': 'every Ok path of ci_wilson applies Zq in this call', 'paths': n_ok})
            rank_terms(ctx, m)
            data_terms(ctx, m)
        except mir.Stuck as e:
            m.stuck('C03:M', 'unsupported construct: %s' % e)
        m.finish()


def rank_terms(ctx, m):
    """Engine M on quantile::Stats::ci / index for EVERY population n (the K harnesses decide n <= 12 and a grid): with ci_wilson
    replaced by a symbolic Ok(TwoSided(lo, hi)), the ranks are syntactically min(floor(p*n) as usize, n-1) of the Wilson bounds,
    ci_wilson receives (confidence, n, round(q*n) as usize), and the rejections are exactly the documented ones."""
    from mirsmt import engine as E, term as T, mir
    from props.common_m import KNAME, VARIANT
    cands = [g for g in m.fns if g.short == 'ci' and 'quantile' in g.name and '<impl at' in g.name and len(g.args) == 3]
    if len(cands) != 1:
        m.stuck('C03:rank-terms', 'cannot identify quantile::Stats::ci in the MIR dump')
        return
    n, q = T.var('n', 'i'), T.var('q')
    LO, HI = T.var('WLO'), T.var('WHI')
    rec = []
    orig = m.models.dispatch

    def dispatch(mach, st, fid, callee, argv):
        if callee.split('::')[-1] == 'ci_wilson':
            rec.append((list(st['pc']), argv))
            return [(None, ('adt', 'Result', 0, [('adt', 'Interval', 0, [('f', LO), ('f', HI)])])), (None, ('adt', 'Result', 1, [('adt', 'CIError', mir.VARIANTS['CIError'].index('TooFewSuccesses'), [('i', T.var('e1', 'i')), ('i', T.var('e2', 'i')), ('f', T.var('e3'))])]))]
        return orig(mach, st, fid, callee, argv)
    m.models.dispatch = dispatch
    try:
        ref, extra = E.self_ref(('adt', 'Stats', 0, [('i', n)]))
        res = m.run(cands[0], [ref, E.confidence(), ('f', q)], extra)
    finally:
        m.models.dispatch = orig
    bad = [r for r in res if r.kind == 'stuck']
    if bad:
        m.stuck('C03:rank-terms', bad[0].value[1])
        return
    nf = T.mk('i2f', n)
    want_succ = T.mk('f2i', T.mk('fround', T.mk('fmul', q, nf)))
    idx = lambda p: T.mk('imin', T.mk('f2i', T.mk('ffloor', T.mk('fmul', p, nf))), T.mk('isub', n, T.iconst(1)))
    ok_args = bool(rec) and all(a[1][0] == 'i' and a[1][1] == n and a[2][0] == 'i' and a[2][1] == want_succ and a[0][0] == 'symenum' for _, a in rec)
    if ok_args:
        ctx.record('C03:rank-terms:wilson-arguments', 'M', 'held', bound='syntactic, every n', sample={'obligation': 'Stats::ci calls ci_wilson(confidence, n, round(q*n) as usize)', 'verdict': 'same terms'})
    else:
        m.violated_structurally('C03:rank-terms:wilson-arguments', 'C03:rank:wilson-arguments', 'Stats::ci does not hand (confidence, n, round(q*n)) to ci_wilson: %s' % [mir.show(a[2])[:80] for _, a in rec][:2])
    seen = set()
    good = True
    for r in res:
        if r.kind == 'panic':
            m.submit('C03:rank-terms:no-panic[%s]' % r.value[1][:30], r.pc + [T.mk('ige', n, T.iconst(4)), T.mk('fle', T.fconst(0), LO), T.mk('fle', LO, HI), T.mk('fle', HI, T.fconst(1))], T.bconst(False), sem=('R', 'int'), key='C03:rank:panic', vacuity=False)
            continue
        if r.kind != 'return' or not E.is_ok(r.value):
            continue
        variant, bounds = E.interval_parts(r.value)
        k = E.pc_kind(r.pc)
        seen.add(k)
        want = {0: [idx(LO), idx(HI)], 1: [idx(LO)], 2: [idx(HI)]}.get(k)
        if k is None or variant != VARIANT[k] or bounds != want:
            good = False
            m.violated_structurally('C03:rank-terms:ranks:' + (KNAME[k] if k is not None else '?'), 'C03:rank:floor-of-wilson-bounds',
                                    'ranks are not min(floor(p*n), n-1) of the Wilson bounds for kind %s: %s' % (k, [T.show(b)[:70] for b in bounds]))
    if good and seen == {0, 1, 2}:
        ctx.record('C03:rank-terms:ranks', 'M', 'held', bound='syntactic, every n, every kind', sample={'obligation': 'ranks == min(floor(p*n) as usize, n-1) of the Wilson bounds; kind -> shape', 'verdict': 'same terms'})
    elif seen != {0, 1, 2}:
        m.stuck('C03:rank-terms:coverage', 'Ok paths for kinds %s only' % sorted(x for x in seen if x is not None))
    # rejections: InvalidQuantile exactly when not (0 < q < 1); TooFewSamples exactly when n < 4 (given a valid q)
    validq = T.and_(T.mk('flt', T.fconst(0), q), T.mk('flt', q, T.fconst(1)))
    contract = [T.mk('fle', T.fconst(0), LO), T.mk('fle', LO, HI), T.mk('fle', HI, T.fconst(1))]      # Wilson bounds lie in [0,1] (C02/C17)
    for r in res:
        if r.kind == 'return' and E.is_err(r.value, 'InvalidQuantile'):
            m.submit('C03:rank-terms:invalid-quantile-only-outside', r.pc + contract, T.not_(validq), sem=('R', 'int'), key='C03:rank:invalid-quantile-variant', vacuity=False)
        elif r.kind == 'return' and E.is_err(r.value, 'TooFewSamples'):
            m.submit('C03:rank-terms:too-few-samples-only-below-4', r.pc, T.and_(validq, T.mk('ilt', n, T.iconst(4))), sem=('R', 'int'), key='C03:rank:too-few-samples-variant', vacuity=False)
        elif r.kind == 'return' and E.is_ok(r.value):
            m.submit('C03:rank-terms:ok-only-inside:%s' % KNAME[E.pc_kind(r.pc)], r.pc, T.and_(validq, T.mk('ige', n, T.iconst(4))), sem=('R', 'int'), key='C03:rank:ok-outside-domain', vacuity=False)
    m.collect()


def flat_pc(pc):
    out = []
    for c in pc:
        if c[0] == 'and':
            out += flat_pc(c[1:])
        else:
            out.append(c)
    return out


def data_terms(ctx, m):
    """Engine M on the data-level entry points for EVERY sample size (the K harnesses decide 4-5 symbolic and 20 concrete elements):
    the sample is an abstract buffer of symbolic length n whose positions are either guaranteed to hold their own order statistic
    (after a full ascending sort: all positions; after select_nth_unstable(i): position i only) or not; ci_indices is replaced by a
    symbolic result of the requested kind (closed by the rank obligations). Obligation: on every Ok path the bounds are the elements
    read at exactly the ranks ci_indices returned, from guaranteed positions; no other error or panic is reachable."""
    from mirsmt import engine as E, term as T, mir
    from props.common_m import KNAME, VARIANT
    from vlib import native
    n, q = T.var('n', 'i'), T.var('q')
    L, H, ERR = T.var('RL', 'i'), T.var('RH', 'i'), T.var('IDXERR', 'b')
    replay = lambda model, p: native.replay_quantile_data(ctx, p['name'])
    entries = [('ci', [g for g in m.fns if g.name == 'quantile::ci'], frozenset()),
               ('ci_max_size', [g for g in m.fns if g.name == 'ci_max_size'], frozenset()),
               ('ci_sorted_unchecked', [g for g in m.fns if g.name == 'ci_sorted_unchecked'], 'all')]
    for ename, cands, guar0 in entries:
        if len(cands) != 1:
            m.stuck('C03:data-terms:' + ename, 'cannot identify %s in the MIR dump (%d candidates)' % (ename, len(cands)))
            continue
        rec = []
        orig = m.models.dispatch

        def dispatch(mach, st, fid, callee, argv):
            if callee.split('::')[-1] == 'ci_indices':
                rec.append(argv)
                cf = mach.deref(st, argv[0])
                if cf[0] != 'symenum':
                    raise mir.Stuck('ci_indices called with a constant confidence')
                fl = flat_pc(st['pc'])
                alts = []
                if ERR not in fl:
                    shapes = [[('i', L), ('i', H)], [('i', L)], [('i', H)]]
                    fixed = E.pc_kind(fl)
                    for k in range(3):
                        if fixed is not None and fixed != k:
                            continue
                        alts.append((T.and_(T.not_(ERR), T.mk('ieq', cf[2], T.iconst(k))), ('adt', 'Result', 0, [('adt', 'Interval', k, shapes[k])])))
                if T.not_(ERR) not in fl:
                    alts.append((ERR, ('adt', 'Result', 1, [('adt', 'CIError', mir.VARIANTS['CIError'].index('TooFewSamples'), [('i', n)])])))
                return alts
            return orig(mach, st, fid, callee, argv)
        m.models.dispatch = dispatch
        try:
            res = m.run(cands[0], [E.confidence(), ('ref', 0, '_data', ()), ('f', q)], {'_data': ('buf', n, guar0, 0)})
            mach = m.last_machine
        finally:
            m.models.dispatch = orig
        bad = [r for r in res if r.kind == 'stuck']
        if bad:
            m.stuck('C03:data-terms:' + ename, bad[0].value[1])
            continue
        name = 'C03:data-terms:%s' % ename
        okargs = bool(rec) and all(a[1][0] == 'i' and a[1][1] == n and a[2][0] == 'f' and a[2][1] == q and a[0][0] == 'symenum' for a in rec)
        if okargs:
            ctx.record(name + ':ci_indices-arguments', 'M', 'held', bound='syntactic, every n', sample={'obligation': '%s calls ci_indices(confidence, data.len(), quantile)' % ename, 'verdict': 'same terms'})
        else:
            m.violated_structurally(name + ':ci_indices-arguments', 'C03:data:ci_indices-arguments', '%s does not hand (confidence, len, quantile) to ci_indices' % ename, replay=replay)
        os_ = lambda t: mach.buf_vars.get(('os', t))
        contract = [T.mk('ile', T.iconst(0), L), T.mk('ile', L, H), T.mk('ilt', H, n)]
        mono = []
        if os_(L) is not None and os_(H) is not None:
            mono = [T.mk('fle', os_(L), os_(H))]            # order statistics are monotone in the rank (L <= H by the ci_indices contract)
        seen, good = set(), True
        for ri, r in enumerate(res):
            fl = flat_pc(r.pc)
            k = E.pc_kind(fl)
            if r.kind == 'panic':
                m.submit(name + ':no-panic[%d:%s]' % (ri, str(r.value[1])[:30]), fl + contract + mono, T.bconst(False), sem=('R', 'int'), key='C03:data:panic', vacuity=False, on_sat=replay)
                continue
            if r.kind != 'return':
                continue
            if E.is_ok(r.value):
                variant, bounds = E.interval_parts(r.value)
                seen.add(k)
                want = {0: [os_(L), os_(H)], 1: [os_(L)], 2: [os_(H)]}.get(k)
                if k is None or ERR in fl or variant != VARIANT[k] or bounds != want:
                    good = False
                    m.violated_structurally(name + ':order-statistics:' + (KNAME[k] if k is not None else '?'), 'C03:data:order-statistics',
                                            '%s: the reported bounds are not the elements at the ranks of ci_indices read from positions that hold their order statistic (kind %s: %s)' % (ename, k, [T.show(b)[:40] for b in bounds]), replay=replay)
            elif E.is_err(r.value, 'InvalidQuantile'):
                validq = T.and_(T.mk('flt', T.fconst(0), q), T.mk('flt', q, T.fconst(1)))
                m.submit(name + ':invalid-quantile-only-outside[%d]' % ri, fl, T.not_(validq), sem=('R', 'int'), key='C03:data:invalid-quantile', vacuity=False, on_sat=replay)
            elif ERR in fl and E.is_err(r.value, 'TooFewSamples'):
                pass        # the error of ci_indices handed through
            else:
                m.submit(name + ':no-other-error[%d:%s]' % (ri, mir.show(r.value)[:40]), fl + contract + mono, T.bconst(False), sem=('R', 'int'), key='C03:data:other-error', vacuity=False, on_sat=replay)
        if good and seen == {0, 1, 2}:
            ctx.record(name + ':order-statistics', 'M', 'held', bound='syntactic, every n, every kind',
                       sample={'obligation': '%s: bounds == elements at the ci_indices ranks, read from sorted positions' % ename, 'verdict': 'same terms', 'kinds': 3})
        elif good:
            m.stuck(name + ':coverage', 'Ok paths for kinds %s only' % sorted(x for x in seen if x is not None))
    m.collect()
