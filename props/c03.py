"""C03 — quantile CI is the order statistics at the Wilson ranks, whatever the data order (engine K)."""
from vlib import core


def run(ctx):
    ctx.level = 'model_checking'
    ctx.functions += ['quantile::{ci,ci_max_size,ci_sorted_unchecked,ci_indices}', 'quantile::Stats::{ci,index,new}', 'arrayvec/Vec sort_by as compiled']
    ctx.assumptions += [
        'element selection / order independence / entry-point agreement: u8 elements (ties included), samples of exactly 4 and 5 elements (Vec-based ci: 4), every permutation and multiset implicitly (symbolic arrays); ci_indices replaced by "any in-range index pair of the requested kind, or an error" (decomposition closed by the rank harnesses); unwind 7',
        'rank arithmetic: Stats::ci / Stats::index with ci_wilson replaced by its contract "any 0 <= lo <= k/n <= hi <= 1 of the documented shape, or the documented domain errors" (closed by C02 and C17 on the real ci_wilson); every double q, NaN included; n symbolic <= 12 (thorough: <= 64) plus concretised n in {3, 15, 100, 4097} (thorough: 1000, 10007, 65536) because multiplication by a symbolic n does not finish in SAT for large n',
        'float / char / string element types differ only in their PartialOrd and are outside the decided instantiations',
        'a 20-element sample is decided with concrete scrambled data (distinct u16 values) and symbolic ranks/kinds: every rank pair l <= h < 20; samples above 20 elements are outside the element-level bound (48 concrete elements did not finish in 900 s); the rank arithmetic does not depend on the data',
    ]
    core.run_kani_set(ctx, ['c03_', 'c06_wilson_quantile_per_call'], bound='data 4-5 elements of u8; n <= 12 symbolic + grid', harness_timeout=900)
    if ctx.tier == 'thorough':
        core.run_kani_set(ctx, ['t03_'], bound='n <= 64 symbolic + larger grid', harness_timeout=3000)
    # engine M: the Wilson bounds the ranks are computed from obtain their critical value from the oracle in THIS call
    from mirsmt import engine as E, mir
    from props.common_m import proportion_paths, oracle_guard
    m = E.MEngine(ctx)
    if m.ok:
        try:
            n_ok = 0
            for p in proportion_paths(m, 'ci_wilson'):
                if p['rk'] == 'stuck':
                    m.stuck('C03:wilson:path', p['value'][1])
                elif p['rk'] == 'return' and E.is_ok(p['value']):
                    variant, bounds = E.interval_parts(p['value'])
                    if oracle_guard(ctx, m, 'C03:wilson', p['pc'], bounds):
                        n_ok += 1
            if n_ok:
                ctx.record('C03:wilson:critical-value-from-the-oracle', 'M', 'held', bound='structural, all Ok paths of ci_wilson', sample={'obligation': 'every Ok path of ci_wilson applies Zq in this call', 'paths': n_ok})
        except mir.Stuck as e:
            m.stuck('C03:M', 'unsupported construct: %s' % e)
        m.finish()
