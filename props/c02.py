"""C02 — proportion CI is the Wilson score interval (and Wald variant) of the counts.
Engine K: domain for every usize pair, front-end counting loops, delegation. Engine M: formulas (props/c02_m.py)."""
from vlib import core

PANICS = {'c11_stats_new_invalid_panics': [r'Number of successes must not be larger than population size']}


def run(ctx):
    ctx.level = 'proof'
    ctx.functions += ['proportion::{ci,ci_wilson,ci_wilson_ratio,ci_z_normal,ci_true,ci_if,is_significant}', 'proportion::Stats::{new,ci,extend,extend_if,from_iter,add_success,add_failure,is_significant}']
    ctx.assumptions += [
        'K: is_significant and the outcome classes of ci_wilson (Ok / InvalidSuccesses / TooFewSuccesses / TooFewFailures with their payloads) for every (n,k) in usize x usize, in particular beyond 2^53 where the f64 conversions of the counts stop being exact; (thorough tier: ci_wilson / ci_z_normal domains and NaN-freedom for every usize pair on the compiled code with the normal quantile stubbed, also part of C11\'s quick tier); front-end loops (ci_true, ci_if, Stats::extend/extend_if/from_iter) with <= 4 symbolic items and a symbolic predicate table; ci_wilson replaced by a recorder to observe the counts handed over',
    ]
    quick = ['c02_frontend', 'c02_stats_counting', 'c02_is_significant', 'c02_wilson_outcome_class', 'c11_stats_new', 'c06_wilson_quantile_per_call', 'c06_z_normal_quantile_per_call']
    core.run_kani_set(ctx, quick, bound='all usize counts; front-end data <= 4 items', harness_timeout=900, expected_fail=PANICS)
    if ctx.tier == 'thorough':
        core.run_kani_set(ctx, ['c02_wilson_domain', 'c02_z_normal_domain', 'c11_wilson_ratio', 't02_'], bound='all usize (n <= 2^32 for the Wald rule)', harness_timeout=3000)
    from props import c02_m
    c02_m.run(ctx)
