"""C13 — interval arithmetic is sound and tight for the denoted sets.
Engine K on Interval<i32> (boxed) for every operation/kind/scalar-sign role; engine M (real arithmetic) for relative_to's enclosure."""
from vlib import core

PANICS = {
    'c13_add_upper_lower_panics': [r'Cannot add one-sided intervals with different directions'],
    'c13_add_lower_upper_panics': [r'Cannot add one-sided intervals with different directions'],
    'c13_sub_upper_upper_panics': [r'Cannot subtract one-sided intervals of the same directions'],
    'c13_sub_lower_lower_panics': [r'Cannot subtract one-sided intervals of the same directions'],
    'c13_relative_to_zero_ref_panics': [r'Cannot compute relative interval to a zero interval'],
    'c13_relative_to_same_direction_panics': [r'Cannot compute relative interval to one-sided interval with same direction'],
}


def run(ctx):
    ctx.level = 'model_checking'
    ctx.functions += ['Interval::applied / applied_both', 'Mul<F>/Div<F>/Add<F>/Sub<F>/Neg for Interval<F>', 'Add/Sub for Interval<F>', 'Interval::relative_to']
    ctx.assumptions += [
        'instantiation Interval<i32>: endpoints in +-1000, probes in +-3000, scalars in +-1000 for + and -, +-100 (non-zero) for * and /; integer division truncates toward zero, which is monotone, so soundness is asserted for the truncated quotient',
        'multiplication by zero is checked for soundness only (the image {0} is not representable as a one-sided interval)',
        'documented panics (adding one-sided intervals of different directions, subtracting same-direction ones, relative_to against a zero or same-direction reference) are checked as: the documented panic is the only failing CBMC property and the statement after the call is unreachable',
        'float instantiations: relative_to kinds/panics on f64 (compare-only); + and - soundness on f32 in the thorough tier; monotonicity of correctly rounded * and / is an IEEE-754 fact taken as trusted (not provable by SAT within budget)',
    ]
    skip = ['c13_f32_']
    filters = ['c13_add', 'c13_sub', 'c13_mul', 'c13_div', 'c13_neg', 'c13_relative']
    core.run_kani_set(ctx, filters, bound='i32 box (see assumptions)', harness_timeout=600, expected_fail=PANICS)
    if ctx.tier == 'thorough':
        core.run_kani_set(ctx, ['c13_f32_'], bound='all finite f32', harness_timeout=1800)
    from props import c13_m
    c13_m.run(ctx)
