"""Single source for MANIFEST.json (vlib/mkmanifest.py)."""
K_ONLY = 'Trusted: rustc/Kani codegen, CBMC 6.11 + CaDiCaL, the harness oracles (written against the property statement, cross-checked where noted). '
M_TB = 'Trusted: rustc MIR (-Zunpretty=mir) as a faithful lowering of the source, the MIR interpreter and its call models (listed in evidence), z3 5.1; real-arithmetic semantics unless stated (rounding outside); oracle functions uninterpreted. '
ENGINES = [
    {'name': 'K', 'path': 'kani/', 'kind_free_text': 'Kani 0.68 / CBMC 6.11 bounded model checking of the compiled crate (scratch copy of /repo + cfg(kani) child-module harnesses), CaDiCaL back end, native replay of counterexamples via concrete playback',
     'serves_properties': ['C01', 'C02', 'C03', 'C04', 'C05', 'C06', 'C07', 'C09', 'C10', 'C11', 'C13', 'C14', 'C15', 'C18', 'C19', 'C20']},
    {'name': 'M', 'path': 'mirsmt/', 'kind_free_text': 'symbolic execution of rustc MIR (nightly -Zunpretty=mir of the scratch copy) into SMT-LIB2 under a chosen float semantics (reals / reals with relative rounding error / FloatingPoint eb sb), decided by z3 5.1 one process per obligation; counterexamples confirmed by a native driver running the real crate against a 60-digit reference',
     'serves_properties': ['C01', 'C02', 'C04', 'C05', 'C06', 'C08', 'C09', 'C10', 'C13', 'C16', 'C17']},
]


def K(id, text, note, tech='Kani/CBMC bounded model checking (SAT) of the compiled code over symbolic inputs'):
    return {'id': id, 'engine': 'K', 'level': 'model_checking', 'technique': tech, 'text': text, 'note': K_ONLY + note}


def M(id, text, note, tech='symbolic execution of rustc MIR to SMT-LIB (z3 nlsat / FP), plus Kani/CBMC harnesses for loops'):
    return {'id': id, 'engine': 'M+K', 'level': 'proof', 'technique': tech, 'text': text, 'note': M_TB + note}


CHECKS = [
    M('C01', 'The expression DAG that rustc\'s MIR of Arithmetic::<F>::ci_mean (callees inlined) returns is proved equal, over the reals and for every accumulator state with count >= 2 (any sample length) and every level/kind, to xbar -/+ c*s/sqrt(n) with c = Tq(quantile, n-1) below 100000 dof and Zq(quantile) from there on; quantile = (1+L)/2 / L; kind -> shape; append accumulates x and x*x by kahan_add (term identity). Kani decides the feeding loops (folds of append) and the statrs call arguments on compiled code.',
      'Rounding of the closed form is outside (C08 bounds the sums); statrs quantiles trusted (C06). K bounds: <= 3 observations.'),
    M('C02', 'Wilson and Wald bounds extracted from MIR are proved (reals) to be the roots of the score equation / the Wald formula, ordered and inside [0,1], with 1 / 0 far ends for one-sided requests and z = Zq(quantile); outcome classes are proved exact over the integers for all n,k; the ratio front end hands over exactly k under a relative-rounding-error model (n <= 2^32), with a bit-precise F(11,53) witness search + native replay on refutation; Kani decides counting loops and delegation.',
      'K bounds: front-end data <= 4 items; thorough tier repeats the domains on compiled code for all usize.'),
    K('C03', 'Kani decides, for symbolic samples of 4-5 u8 elements (ties, every permutation), that ci / ci_max_size / ci_sorted_unchecked return the order statistics at the ranks handed over by ci_indices and agree with each other, independent of input order; and for the rank arithmetic (symbolic n <= 12 + concretised n grid, every double q, symbolic Wilson bounds) that ranks are the capped floors of the Wilson bounds, in range, ordered, bracket round(q n) within one position, with the documented rejections.',
      'Decomposition: ci_indices and ci_wilson replaced by contract stubs closed by other harnesses/C02/C17. Samples > 5 elements and non-u8 element types outside the bound; quick tier n <= 12 symbolic, thorough n <= 64 + larger grid.'),
    M('C04', 'Unpaired::ci_mean\'s MIR terms are proved (reals, all pairs of states with counts >= 2) to be (mean_a-mean_b) -/+ c*sqrt(sa2/na+sb2/nb) with c at the documented effective dof (t below 100000, z above), swap symmetry given an odd oracle; Paired methods are term-identical to Arithmetic on a-b; Kani decides the feeding loops (difference sequence, routing a->a / b->b) and DifferentSampleSizes payloads.',
      'K bounds: <= 3 pairs / 2+2 observations, recorder stubs, one operand of each pair zero.'),
    M('C05', 'Geometric/Harmonic ci_mean, sample_mean are shown to be exp / reciprocal (ends exchanged, confidence flipped) of the arithmetic results as identical expression DAGs; sample_sem equals the documented delta-method forms (reals); append feeds ln x / 1/x exactly when x > 0. Kani decides rejection of every non-positive f64/f32 with the state bitwise unchanged and at every position.',
      'AM-GM-HM ordering not encoded (a theorem about means, outside). exp/ln uninterpreted.'),
    {'id': 'C06', 'engine': 'K+M', 'level': 'other', 'technique': 'reduction to the statrs oracle decided by Kani stub recorders and MIR/SMT argument identities; oracle truth trusted',
     'text': 'Decides the reduction only: on compiled code (Kani) and on MIR (z3) every critical value is statrs StudentsT/Normal inverse_cdf at (1+L)/2 | L with the documented dof and switch, consulted afresh per call, span = c*se unsigned-free. That statrs\' inverse CDFs are the true quantiles cannot be encoded (iterative special functions) and is trusted.',
     'note': 'statrs 0.18 numerical correctness is trusted (pinned by Cargo.lock). ' + K_ONLY},
    K('C07', 'Every value of Interval<i8> x Interval<i8> x probe (and Interval<f64> compare-only) is decided by CBMC against a set-semantics oracle; no unwinding or range bound, so the verdict covers the whole instantiated input space; counterexamples are replayed natively.',
      'Instantiations i8 and f64 only; NaN excluded; two-sided inputs satisfy low <= high.'),
    M('C08', 'Per-step error lemmas of compensated summation on the terms extracted from the MIR of kahan_add / KahanSum (+=, merge, value), decided bit-precisely by z3 at reduced float widths for every finite register and addend, plus bounded end-to-end sums; naive summation is refuted by the same queries (discrimination witness).',
      'Decided at the stated reduced formats only (format-parametric source); f32/f64 outside the solver\'s bound; composition of the per-step lemmas into the n-term bound is a three-line paper argument in DESIGN.md.',
      tech='symbolic execution of rustc MIR to SMT-LIB FloatingPoint at reduced width (z3), cube-split'),
    M('C09', 'One merge step from arbitrary states (covers every grouping/order/tree/schedule): Kani decides counts, integer Stats sums, purity, copies and feeding loops on compiled code; MIR term identities show merged registers are exactly the component-wise register merges, += is +, wrappers delegate, Unpaired merges a with a and b with b; value(a (+) b) = value(a)+value(b)-2c_a over the reals.',
      'Closeness of sums to exact sums is C08; K bounds: <= 3-4 observations in feeding loops; counts < usize::MAX/2.'),
    M('C10', 'For every producer the bound terms from MIR are shown (reals, critical value abstracted) to be the same function of the critical value for one- and two-sided requests, monotone in it, to contain the point estimate for c >= 0, with q_two(2L-1) = L and Confidence::quantile increasing; Wilson/Wald one-sided bounds monotone in signed z (odd symmetry); rank map monotone; result kind == confidence kind.',
      'Oracle axioms (non-decreasing in p, >= 0 above 1/2) stated, not proved. FP evaluation of 1-(1-(2L-1))/2 vs L outside.'),
    K('C11', 'Kani decides totality on the compiled code: state-level harnesses over arbitrary accumulator fields (= after any history, incl. count 0/1, NaN/inf sums) and API-level harnesses with <= 3 (quantiles <= 5) arbitrary observations: no panic other than the documented ones, Ok => no NaN bound and low <= high, documented error variants, for all usize counts and every double quantile.',
      'Levels in [0.001,0.9999]; statrs inverse CDFs stubbed by their sign/finite contract (|z|<=40,|t|<=1e300); decompositions listed in evidence.'),
    K('C13', 'Kani decides soundness, shape (unbounded side) and tightness of every scalar and interval-interval operation per (operation, kind, scalar sign) on Interval<i32> in a stated box, the documented panics, and relative_to kinds/panics; engine M proves relative_to\'s enclosure and attained bounds over the reals.',
      'Box: endpoints +-1000, scalars +-1000 (+,-) / +-100 (*,/). Float * and / monotonicity is an IEEE fact taken as trusted; f32 +,- in the thorough tier.', tech='Kani/CBMC bounded model checking (SAT) over an integer box; MIR-to-SMT (z3 nlsat) for relative_to'),
    K('C14', 'Kani decides constructors/conversions (Ok iff low <= high, InvalidBounds / EmptyInterval), bit-exact accessors and projections, round trips, kind predicates, is_degenerate, width, clone/copy/eq/hash-stream consistency over all i8/u8, all non-NaN f64 bit patterns, and a non-Copy ordered newtype.', 'NaN bounds outside; width on i32 in +-10^6, f32 for the float subtraction.'),
    K('C15', 'Kani decides Equal <=> ==, Less <=> a != b and sup a <= inf b, duality, transitivity and incomparability over every pair / triple of Interval<i8>.', 'Instantiation i8 (a 256-chain realises every relative order of six bounds).'),
    M('C16', 'Real identities on the MIR terms: CI(lambda*state) = lambda*CI(state) for lambda > 0, mirror under negation with upper/lower exchanged, CI(state shifted by d) = CI + d, append homogeneity, for Arithmetic and Unpaired (dof scale-invariant); critical value data-independent (dataflow); IEEE scaling lemmas per operation at F(5,11).',
      'Exactness for powers of two rests on the per-operation lemmas decided at F(5,11) only, absent over/underflow; reordering reduces to C08.'),
    M('C17', 'Real-arithmetic (nlsat) proofs on the Wilson and Wald terms extracted from MIR: mirror symmetry with upper/lower exchanged, both bounds non-decreasing in k, strictly narrower for (m n, m k), wider with z, inside [0,1], midpoint between k/n and 1/2 - for all real n, k in the domain and real z > 0.',
      'n,k relaxed to reals; Wald monotonicity in k stated for z <= 4.'),
    K('C18', 'Kani decides over every f64/f32 bit pattern: constructors return exactly for 0<l<1 and otherwise only the documented panic is reachable, try_from returns InvalidConfidenceLevel, accessor consistency, flipped involution, order iff same kind then by level, == iff kind and level.', 'percent() checked for range only.'),
    K('C19', 'Kani decides, for an element type whose approximate-equality relations are symbolic truth tables, that the interval relation is exactly same-kind AND bound-wise element relation with the same tolerances (hence reflexive/symmetric/implied by == when the element relation is), plus exact Display bytes.', 'f64 instantiation decided only for equal bounds and across kinds; Display with a one-byte token type.'),
    K('C20', 'Builds the crate under each advertised feature set (compile step) and, under serde, lets Kani run the real derive output of every state type against an in-harness binary (de)serializer over arbitrary field values: bitwise-equal restoration.', 'Feature matrix is compilation, not solving. One binary format; equal statistics/continuation follow from bitwise equality + determinism.',
      tech='Kani/CBMC on serde derive output; cargo build per feature set'),
]
NOT_APPLICABLE = [
    {'property_id': 'C12', 'reason': 'exact binomial coverage is a numerical summation over all outcomes k on a grid of (n,p,level) up to thousands; there is nothing for a solver to search and pmf sums of that size are not encodable bit-precisely or in NRA (DESIGN.md §4)'},
]

