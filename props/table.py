"""Single source for MANIFEST.json (vlib/mkmanifest.py)."""
ENGINES = [
    {'name': 'K', 'path': 'kani/', 'kind_free_text': 'Kani 0.68 / CBMC 6.11 bounded model checking of the compiled crate (scratch copy of /repo + cfg(kani) child-module harnesses), CaDiCaL back end, native replay of counterexamples via concrete playback',
     'serves_properties': ['C07']},
    {'name': 'M', 'path': 'mirsmt/', 'kind_free_text': 'symbolic execution of rustc MIR (nightly -Zunpretty=mir of the scratch copy) into SMT-LIB2, decided by z3 5.1 (cross-checked with z3 4.8 / cvc5)',
     'serves_properties': []},
]
PENDING = 'check not built yet in this revision of /verif (machinery under construction; see DESIGN.md for the planned approach)'
CHECKS = [
    {'id': 'C07', 'engine': 'K', 'level': 'model_checking', 'technique': 'Kani/CBMC bounded model checking (SAT) of the compiled predicates over all i8 / non-NaN f64 inputs, set-semantics oracle',
     'text': 'Every value of Interval<i8> x Interval<i8> x probe (and Interval<f64> compare-only) is decided by CBMC against a set-semantics oracle; no unwinding or range bound, so the verdict covers the whole instantiated input space; counterexamples are replayed natively.',
     'note': 'Trusted: rustc/Kani codegen, CBMC, the sentinel oracle (cross-checked pointwise). Instantiations i8 and f64 only; NaN excluded; two-sided inputs satisfy low <= high.'},
]
NOT_APPLICABLE = [
    {'property_id': 'C12', 'reason': 'exact binomial coverage is a numerical summation over all outcomes k on a grid of (n,p,level) up to thousands; there is nothing for a solver to search and pmf sums of that size are not encodable bit-precisely or in NRA (DESIGN.md §4)'},
] + [{'property_id': 'C%02d' % i, 'reason': PENDING} for i in range(1, 21) if i not in (7, 12)]
