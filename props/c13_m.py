"""C13, engine M: relative_to of a non-negative interval against a strictly positive reference encloses (x-r)/r for all
members x, r and attains its bounds (real arithmetic on the terms extracted from the MIR of Interval::<T>::relative_to)."""
from mirsmt import engine as E, term as T, mir
from props.common_m import *


def ivl(k, lo, hi):
    if k == 0:
        return ('adt', 'Interval', 0, [E.fv(lo), E.fv(hi)])
    return ('adt', 'Interval', k, [E.fv(lo if k == 1 else hi)])


def run(ctx):
    m = E.MEngine(ctx)
    if not m.ok:
        return
    try:
        f = m.fn('relative_to', 'Interval', 'inherent')
        x, y, a, b, X, R = (T.var(v) for v in ('x', 'y', 'a', 'b', 'X', 'R'))
        zero = T.fconst(0)
        for ks, kr in ((0, 0), (1, 0), (0, 1)):
            s_, r_ = ivl(ks, 'x', 'y'), ivl(kr, 'a', 'b')
            res = m.run(f, [('ref', 0, '_s', ()), ('ref', 0, '_r', ())], {'_s': s_, '_r': r_})
            pre = [T.mk('fle', zero, x)] + ([T.mk('fle', x, y)] if ks == 0 else []) + [T.mk('flt', zero, a)] + ([T.mk('fle', a, b)] if kr == 0 else [])
            mem = [T.mk('fle', x, X)] + ([T.mk('fle', X, y)] if ks == 0 else []) + [T.mk('fle', a, R)] + ([T.mk('fle', R, b)] if kr == 0 else [])
            val = T.mk('fdiv', T.mk('fsub', X, R), R)
            tag = '%s-vs-%s' % (KNAME[ks], KNAME[kr])
            oks = 0
            for r in res:
                if r.kind == 'stuck':
                    m.stuck('C13:relative_to:' + tag, r.value[1])
                    continue
                if r.kind == 'panic':
                    m.submit('C13:relative_to:no-panic:' + tag, r.pc + pre, T.bconst(False), key='C13:relative_to:panic', note='zero-reference panic unreachable for a strictly positive reference')
                    continue
                v = r.value
                kind = v[2]
                bnds = [t_[1] for t_ in v[3]]
                oks += 1
                want_kind = {(0, 0): 0, (1, 0): 1, (0, 1): 2}[(ks, kr)]
                if kind != want_kind:
                    m.violated_structurally('C13:relative_to:kind:' + tag, 'C13:relative_to:kind', 'result kind %d, image has kind %d' % (kind, want_kind))
                    continue
                lo_t = bnds[0] if kind in (0, 1) else None
                hi_t = bnds[-1] if kind in (0, 2) else None
                goal = T.and_(*([T.mk('fle', lo_t, val)] if lo_t is not None else []) + ([T.mk('fle', val, hi_t)] if hi_t is not None else []))
                m.submit('C13:relative_to:encloses:' + tag, r.pc + pre + mem, goal, key='C13:relative_to:encloses', timeout=120, note='(X-R)/R inside the result for all members X, R')
                # attained: lower bound at (x, b), upper bound at (y, a)
                att = []
                if lo_t is not None:
                    att.append(T.mk('feq', lo_t, T.mk('fdiv', T.mk('fsub', x, b), b)))
                if hi_t is not None:
                    att.append(T.mk('feq', hi_t, T.mk('fdiv', T.mk('fsub', y, a), a)))
                m.submit('C13:relative_to:attained:' + tag, r.pc + pre, T.and_(*att), key='C13:relative_to:attained', timeout=60, note='finite bounds are attained at the endpoints (x,b) / (y,a)')
            if oks == 0:
                m.stuck('C13:relative_to:' + tag, 'no returning path')
    except mir.Stuck as e:
        m.stuck('C13:M', 'unsupported construct: %s' % e)
    m.finish()
