"""C09 — incremental, chunked, merged and parallel accumulation equal the batch result.
One merge step from ARBITRARY states covers every grouping, order and merge tree (and every schedule of a parallel
reduce, since states are plain Copy values merged by value). Engine K: exact parts on the compiled code (counts,
integer Stats, purity, copies, feeding loops as folds of append). Engine M: merged registers are exactly the
component-wise register merges (term identities), `+=` is `+`, wrappers delegate, a-with-a / b-with-b."""
from vlib import core
from mirsmt import engine as E, term as T, mir
from props.common_m import *

TRUSTED = ['term identities are syntactic (hash-consed DAG equality): they hold under every float semantics', 'closeness of the merged sums to the exact sums is C08\'s result; the CI is a function of (Sigma, Q, n) only (C01)',
           'MIR call models listed under call_models_used']


def kah(s, c, v):
    y = T.mk('fsub', v, c)
    t = T.mk('fadd', s, y)
    return t, T.mk('fsub', T.mk('fsub', t, s), y)


def merge_reg(a, b):
    """AddAssign<Self> for KahanSum as documented by the source: two kahan_adds (rhs.sum, then rhs.compensation)"""
    (s, c), (rs, rc) = a, b
    s1, c1 = kah(s, c, rs)
    return kah(s1, c1, rc)


def reg(v):
    return (v[3][0][1], v[3][1][1])


def arith_fields(v):
    return reg(v[3][0]), reg(v[3][1]), v[3][2][1]


def run(ctx):
    ctx.level = 'proof'
    ctx.trusted_base = TRUSTED
    ctx.assumptions += ['K: arbitrary accumulator states (all f64 bit patterns, any counts below usize::MAX/2 so the integer sums cannot overflow - stated); feeding loops with <= 3 observations',
                        'threads: Kani does not model threads and none are needed - merging takes operands by value, so a parallel reduction is some merge tree over per-thread values',
                        '"same mean/variance/CI up to rounding": both routes produce registers within the C08 bound of the same exact sums; no separate float query']
    core.run_kani_set(ctx, ['c09_', 'c01_arith_feeding', 'c01_arith_trait', 'c02_stats_counting', 'c04_paired_feeders', 'c04_unpaired_feeders', 'c04_unpaired_append_pair'], bound='arbitrary states; <= 3-4 observations', harness_timeout=900)
    m = E.MEngine(ctx)
    if not m.ok:
        return
    try:
        oblig(ctx, m)
    except mir.Stuck as e:
        m.stuck('C09:M', 'unsupported construct: %s' % e)
    m.finish()


def single(m, fn, args, extra=None, name=''):
    rs = m.run(fn, args, extra)
    bad = [r for r in rs if r.kind == 'stuck']
    if bad:
        raise mir.Stuck('%s: %s' % (name, bad[0].value[1]))
    return rs


def held(ctx, name, what):
    ctx.record(name, 'M', 'held', bound='syntactic (same DAG)', sample={'obligation': what, 'verdict': 'same terms'})


def pathset(rs, pick):
    """canonical set of (path condition, picked value) over the returning paths"""
    return sorted(((tuple(sorted(map(T.show, r.pc))), pick(r)) for r in rs if r.kind == 'return'), key=lambda x: repr(x))


def merge_paths(m, ks, a, b):
    """paths of `KahanSum += KahanSum` on registers a=(s,c), b=(rs,rc) given as term pairs: [(pc, (sum, comp))]"""
    ref, extra = E.self_ref(('adt', 'KahanSum', 0, [('f', a[0]), ('f', a[1])]))
    rs = single(m, ks, [ref, ('adt', 'KahanSum', 0, [('f', b[0]), ('f', b[1])])], extra, 'KahanSum+=KahanSum')
    return [(r.pc, reg(r.store['_self'])) for r in rs if r.kind == 'return']


def oblig(ctx, m):
    A, B = E.arith('a'), E.arith('b')
    na, nb = T.var('na', 'i'), T.var('nb', 'i')
    nooverflow = [T.mk('ile', T.mk('iadd', na, nb), T.iconst(2 ** 64 - 1)), T.mk('ige', na, T.iconst(0)), T.mk('ige', nb, T.iconst(0))]
    # ---- KahanSum += KahanSum: on every path the result is the compensated accumulation of one register into the other
    # (two kahan_adds: the other register's sum, then its compensation)
    ks = [f for f in m.fns if f.short == 'add_assign' and 'utils' in f.name and len(f.args) == 2 and 'KahanSum' in f.args[1][1]]
    if len(ks) != 1:
        m.stuck('C09:kahan:merge', 'AddAssign<KahanSum> not found')
        return
    ks = ks[0]
    s, c, rs_, rc = T.var('s'), T.var('c'), T.var('rs'), T.var('rc')
    mp = merge_paths(m, ks, (s, c), (rs_, rc))
    fwd, bwd = merge_reg((s, c), (rs_, rc)), merge_reg((rs_, rc), (s, c))
    val = lambda x, y: T.mk('fadd', x, y)
    ok_all = bool(mp)
    for i, (pc, got) in enumerate(mp):
        if got == fwd:
            acc_c = c
        elif got == bwd:
            acc_c = rc
        else:
            ok_all = False
            continue
        # value of the merged register over the reals: value(a) + value(b) - 2 * compensation of the register accumulated INTO.
        # value() reports sum + compensation while kahan_add maintains sum - compensation, so a merge moves the reported value by twice
        # that compensation - a rounding-level quantity (|c| <= 2u|sum|, C08 L1): "the empty state is neutral" holds up to rounding.
        m.submit('C09:kahan:merge-value' + ('' if len(mp) == 1 else ':path%d' % i), list(pc), T.mk('feq', val(*got), T.mk('fsub', T.mk('fadd', val(s, c), val(rs_, rc)), T.mk('fmul', T.fconst(2), acc_c))),
                 key='C09:kahan:merge-value', vacuity=False, note='value(a (+) b) = value(a) + value(b) - 2 c_acc over the reals')
    if ok_all:
        held(ctx, 'C09:kahan:merge-register', 'KahanSum += KahanSum is, on each of its %d path(s), kahan_add(other.sum) then kahan_add(other.compensation) into one of the two registers' % len(mp))
    else:
        m.violated_structurally('C09:kahan:merge-register', 'C09:kahan:merge', 'register merge is not the two compensated additions of one register into the other')
    zero = T.fconst(0)
    for side, (x, y) in (('left', ((zero, zero), (s, c))), ('right', ((s, c), (zero, zero)))):
        for i, (pc, got) in enumerate(merge_paths(m, ks, x, y)):
            # merging with an empty register: the maintained quantity sum - compensation... and the reported value differ from the
            # non-empty operand's by at most 2|c| (reals)
            diff = T.mk('fsub', val(*got), val(s, c))
            two_c = T.mk('fmul', T.fconst(2), T.mk('fabs', c))
            m.submit('C09:kahan:empty-%s-neutral-up-to-2c%s' % (side, '' if i == 0 else ':path%d' % i), list(pc), T.and_(T.mk('fle', diff, two_c), T.mk('fle', T.mk('fneg', two_c), diff)),
                     key='C09:kahan:empty-neutral', vacuity=False, note='merging with the empty register moves value() by at most twice the compensation (rounding level)')
    # ---- Arithmetic::add = component-wise register merges, counts added: the path set is the product of the two register merges
    fadd = m.fn('add', 'Arithmetic', 'inherent')
    rs = single(m, fadd, [A, B], None, 'Arithmetic::add')
    for r in rs:
        if r.kind == 'panic':
            m.submit('C09:arith:add:no-overflow', r.pc + nooverflow, T.bconst(False), sem=('R', 'int'), key='C09:arith:add:panic')
    m1 = merge_paths(m, ks, reg(A[3][0]), reg(B[3][0]))
    m2 = merge_paths(m, ks, reg(A[3][1]), reg(B[3][1]))
    want = sorted(((tuple(sorted(map(T.show, list(p1) + list(p2)))), (g1, g2, T.mk('iadd', na, nb))) for p1, g1 in m1 for p2, g2 in m2), key=lambda x: repr(x))
    got = pathset(rs, lambda r: arith_fields(r.value))
    # the count addition contributes its overflow-check atom to the path condition: compare modulo integer atoms
    strip = lambda ps: sorted(((tuple(a for a in pc if 'na' not in a or 'sa' in a), v) for pc, v in ps), key=lambda x: repr(x))
    if strip(got) == strip(want) and got:
        held(ctx, 'C09:arith:add:componentwise', 'Arithmetic::add merges sum with sum, sum_sq with sum_sq (register merges, %d path combinations) and adds the counts' % len(got))
    else:
        m.violated_structurally('C09:arith:add:componentwise', 'C09:arith:add', 'Arithmetic::add is not the component-wise register merge with count na+nb')
    inherent = pathset(rs, lambda r: r.value)
    # ---- operator forms agree with the inherent add: Add::add, AddAssign::add_assign, wrappers delegate
    for ty, wrap, unwrap in (('Arithmetic', lambda x: x, lambda v: v), ('Harmonic', lambda x: ('adt', 'Harmonic', 0, [x]), lambda v: v[3][0]), ('Geometric', lambda x: ('adt', 'Geometric', 0, [x]), lambda v: v[3][0]),
                             ('Paired', lambda x: ('adt', 'Paired', 0, [x]), lambda v: v[3][0])):
        ops = [f for f in m.fns if f.short == 'add' and m_self(m, f) == ty]
        for f in ops:
            kind = mir.Machine(m.fns, m.src_root, m.models).impl_kind(f)
            rs2 = single(m, f, [wrap(A), wrap(B)], None, '%s::add' % ty)
            nm = 'C09:%s:%s-add' % (ty.lower(), kind)
            if inherent and pathset(rs2, lambda r: unwrap(r.value)) == inherent:
                held(ctx, nm, '%s %s add == component-wise merge of the wrapped Arithmetic states (same paths, same terms)' % (ty, kind))
            else:
                m.violated_structurally(nm, 'C09:%s:add' % ty.lower(), '%s (%s) add differs from the component-wise merge' % (ty, kind))
        asg = [f for f in m.fns if f.short == 'add_assign' and m_self(m, f) == ty]
        for f in asg:
            ref, extra = E.self_ref(wrap(A))
            rs2 = single(m, f, [ref, wrap(B)], extra, '%s+=' % ty)
            nm = 'C09:%s:add-assign' % ty.lower()
            if inherent and pathset(rs2, lambda r: unwrap(r.store['_self'])) == inherent:
                held(ctx, nm, '%s += rhs leaves exactly self + rhs' % ty)
            else:
                m.violated_structurally(nm, 'C09:%s:add-assign' % ty.lower(), '%s += differs from +' % ty)
        if not ops or not asg:
            m.stuck('C09:%s' % ty.lower(), 'add / add_assign implementations not found (%d, %d)' % (len(ops), len(asg)))
    # ---- Unpaired: a with a, b with b
    A2, B2 = E.arith('c'), E.arith('d')
    U1 = ('adt', 'Unpaired', 0, [A, B])
    U2 = ('adt', 'Unpaired', 0, [A2, B2])
    ra = pathset(single(m, fadd, [A, A2], None, 'add a'), lambda r: r.value)
    rb = pathset(single(m, fadd, [B, B2], None, 'add b'), lambda r: r.value)
    want_u = sorted(((tuple(sorted(pa + pb)), (va, vb)) for pa, va in ra for pb, vb in rb), key=lambda x: repr(x))
    for f in [g for g in m.fns if g.short == 'add' and m_self(m, g) == 'Unpaired']:
        rs2 = single(m, f, [U1, U2], None, 'Unpaired::add')
        if pathset(rs2, lambda r: (r.value[3][0], r.value[3][1])) == want_u and want_u:
            held(ctx, 'C09:unpaired:add', 'Unpaired + Unpaired merges stats_a with stats_a and stats_b with stats_b')
        else:
            m.violated_structurally('C09:unpaired:add', 'C09:unpaired:add', 'Unpaired + does not merge a with a and b with b')
    for f in [g for g in m.fns if g.short == 'add_assign' and m_self(m, g) == 'Unpaired']:
        ref, extra = E.self_ref(U1)
        rs2 = single(m, f, [ref, U2], extra, 'Unpaired+=')
        if pathset(rs2, lambda r: (r.store['_self'][3][0], r.store['_self'][3][1])) == want_u and want_u:
            held(ctx, 'C09:unpaired:add-assign', 'Unpaired += merges stats_a with stats_a and stats_b with stats_b')
        else:
            m.violated_structurally('C09:unpaired:add-assign', 'C09:unpaired:add-assign', 'Unpaired += does not merge a with a and b with b')
    m.collect()


def m_self(m, f):
    return mir.Machine(m.fns, m.src_root, m.models).impl_self_type(f)
