"""C09 — incremental, chunked, merged and parallel accumulation equal the batch result.
One merge step from ARBITRARY states covers every grouping, order and merge tree (and every schedule of a parallel
reduce, since states are plain Copy values merged by value). Engine K: exact parts on the compiled code (counts,
integer Stats, purity, copies, feeding loops as folds of append). Engine M: merged registers are exactly the
component-wise register merges (term identities), `+=` is `+`, wrappers delegate, a-with-a / b-with-b."""
from vlib import core
from mirsmt import engine as E, term as T, mir
from props.common_m import *

TRUSTED = ['term identities are syntactic (hash-consed DAG equality): they hold under every float semantics', 'closeness of the merged sums to the exact sums is C08\'s result; the CI is a function of (Sigma, Q, n) only (C01)',
           'MIR call models listed under call_models_used']


def kah(s, c, v):
    y = T.mk('fsub', v, c)
    t = T.mk('fadd', s, y)
    return t, T.mk('fsub', T.mk('fsub', t, s), y)


def merge_reg(a, b):
    """AddAssign<Self> for KahanSum as documented by the source: two kahan_adds (rhs.sum, then rhs.compensation)"""
    (s, c), (rs, rc) = a, b
    s1, c1 = kah(s, c, rs)
    return kah(s1, c1, rc)


def reg(v):
    return (v[3][0][1], v[3][1][1])


def arith_fields(v):
    return reg(v[3][0]), reg(v[3][1]), v[3][2][1]


def run(ctx):
    ctx.level = 'proof'
    ctx.trusted_base = TRUSTED
    ctx.assumptions += ['K: arbitrary accumulator states (all f64 bit patterns, any counts below usize::MAX/2 so the integer sums cannot overflow - stated); feeding loops with <= 3 observations',
                        'threads: Kani does not model threads and none are needed - merging takes operands by value, so a parallel reduction is some merge tree over per-thread values',
                        '"same mean/variance/CI up to rounding": both routes produce registers within the C08 bound of the same exact sums; no separate float query']
    core.run_kani_set(ctx, ['c09_', 'c01_arith_feeding', 'c01_arith_trait', 'c02_stats_counting'], bound='arbitrary states; <= 3-4 observations', harness_timeout=900)
    m = E.MEngine(ctx)
    if not m.ok:
        return
    try:
        oblig(ctx, m)
    except mir.Stuck as e:
        m.stuck('C09:M', 'unsupported construct: %s' % e)
    m.finish()


def single(m, fn, args, extra=None, name=''):
    rs = m.run(fn, args, extra)
    bad = [r for r in rs if r.kind == 'stuck']
    if bad:
        raise mir.Stuck('%s: %s' % (name, bad[0].value[1]))
    return rs


def held(ctx, name, what):
    ctx.record(name, 'M', 'held', bound='syntactic (same DAG)', sample={'obligation': what, 'verdict': 'same terms'})


def oblig(ctx, m):
    A, B = E.arith('a'), E.arith('b')
    na, nb = T.var('na', 'i'), T.var('nb', 'i')
    nooverflow = [T.mk('ile', T.mk('iadd', na, nb), T.iconst(2 ** 64 - 1)), T.mk('ige', na, T.iconst(0)), T.mk('ige', nb, T.iconst(0))]
    # ---- KahanSum += KahanSum
    ks = [f for f in m.fns if f.short == 'add_assign' and 'utils' in f.name and len(f.args) == 2 and 'KahanSum' in f.args[1][1]]
    if len(ks) == 1:
        ref, extra = E.self_ref(E.kahan('s', 'c'))
        rs = single(m, ks[0], [ref, E.kahan('rs', 'rc')], extra, 'KahanSum+=KahanSum')
        got = [reg(r.store['_self']) for r in rs if r.kind == 'return']
        want = merge_reg((T.var('s'), T.var('c')), (T.var('rs'), T.var('rc')))
        if got == [want]:
            held(ctx, 'C09:kahan:merge-register', 'KahanSum += KahanSum is kahan_add(rhs.sum) then kahan_add(rhs.compensation)')
        else:
            m.violated_structurally('C09:kahan:merge-register', 'C09:kahan:merge', 'register merge is not the two compensated additions')
    else:
        m.stuck('C09:kahan:merge', 'AddAssign<KahanSum> not found')
    # ---- Arithmetic::add
    fadd = m.fn('add', 'Arithmetic', 'inherent')
    rs = single(m, fadd, [A, B], None, 'Arithmetic::add')
    want = (merge_reg(reg(A[3][0]), reg(B[3][0])), merge_reg(reg(A[3][1]), reg(B[3][1])), T.mk('iadd', na, nb))
    oks = [r for r in rs if r.kind == 'return']
    for r in rs:
        if r.kind == 'panic':
            m.submit('C09:arith:add:no-overflow', r.pc + nooverflow, T.bconst(False), sem=('R', 'int'), key='C09:arith:add:panic')
    if len(oks) == 1 and arith_fields(oks[0].value) == want:
        held(ctx, 'C09:arith:add:componentwise', 'Arithmetic::add merges sum with sum, sum_sq with sum_sq (register merges) and adds the counts')
    else:
        m.violated_structurally('C09:arith:add:componentwise', 'C09:arith:add', 'Arithmetic::add is not the component-wise register merge with count na+nb: %s' % (mir.show(oks[0].value)[:200] if oks else 'no result'))
    inherent_add = oks[0].value if len(oks) == 1 else None
    # ---- operator forms agree with the inherent add: Add::add, AddAssign::add_assign
    for ty, wrap, unwrap in (('Arithmetic', lambda x: x, lambda v: v), ('Harmonic', lambda x: ('adt', 'Harmonic', 0, [x]), lambda v: v[3][0]), ('Geometric', lambda x: ('adt', 'Geometric', 0, [x]), lambda v: v[3][0]),
                             ('Paired', lambda x: ('adt', 'Paired', 0, [x]), lambda v: v[3][0])):
        ops = [f for f in m.fns if f.short == 'add' and m_self(m, f) == ty]
        for f in ops:
            kind = mir.Machine(m.fns, m.src_root, m.models).impl_kind(f)
            rs = single(m, f, [wrap(A), wrap(B)], None, '%s::add' % ty)
            oks = [r for r in rs if r.kind == 'return']
            nm = 'C09:%s:%s-add' % (ty.lower(), kind)
            if inherent_add is not None and len(oks) == 1 and unwrap(oks[0].value) == inherent_add:
                held(ctx, nm, '%s %s add == component-wise merge of the wrapped Arithmetic states' % (ty, kind))
            else:
                m.violated_structurally(nm, 'C09:%s:add' % ty.lower(), '%s (%s) add differs from the component-wise merge' % (ty, kind))
        asg = [f for f in m.fns if f.short == 'add_assign' and m_self(m, f) == ty]
        for f in asg:
            ref, extra = E.self_ref(wrap(A))
            rs = single(m, f, [ref, wrap(B)], extra, '%s+=' % ty)
            oks = [r for r in rs if r.kind == 'return']
            nm = 'C09:%s:add-assign' % ty.lower()
            if inherent_add is not None and len(oks) == 1 and unwrap(oks[0].store['_self']) == inherent_add:
                held(ctx, nm, '%s += rhs leaves exactly self + rhs' % ty)
            else:
                m.violated_structurally(nm, 'C09:%s:add-assign' % ty.lower(), '%s += differs from +' % ty)
        if not ops or not asg:
            m.stuck('C09:%s' % ty.lower(), 'add / add_assign implementations not found (%d, %d)' % (len(ops), len(asg)))
    # ---- Unpaired: a with a, b with b
    A2, B2 = E.arith('c'), E.arith('d')
    U1 = ('adt', 'Unpaired', 0, [A, B])
    U2 = ('adt', 'Unpaired', 0, [A2, B2])

    def merged(x, y):
        return (merge_reg(reg(x[3][0]), reg(y[3][0])), merge_reg(reg(x[3][1]), reg(y[3][1])), T.mk('iadd', x[3][2][1], y[3][2][1]))
    for f in [g for g in m.fns if g.short == 'add' and m_self(m, g) == 'Unpaired']:
        rs = single(m, f, [U1, U2], None, 'Unpaired::add')
        oks = [r for r in rs if r.kind == 'return']
        if len(oks) == 1 and arith_fields(oks[0].value[3][0]) == merged(A, A2) and arith_fields(oks[0].value[3][1]) == merged(B, B2):
            held(ctx, 'C09:unpaired:add', 'Unpaired + Unpaired merges stats_a with stats_a and stats_b with stats_b')
        else:
            m.violated_structurally('C09:unpaired:add', 'C09:unpaired:add', 'Unpaired + does not merge a with a and b with b')
    for f in [g for g in m.fns if g.short == 'add_assign' and m_self(m, g) == 'Unpaired']:
        ref, extra = E.self_ref(U1)
        rs = single(m, f, [ref, U2], extra, 'Unpaired+=')
        oks = [r for r in rs if r.kind == 'return']
        st = oks[0].store['_self'] if len(oks) == 1 else None
        if st is not None and arith_fields(st[3][0]) == merged(A, A2) and arith_fields(st[3][1]) == merged(B, B2):
            held(ctx, 'C09:unpaired:add-assign', 'Unpaired += merges stats_a with stats_a and stats_b with stats_b')
        else:
            m.violated_structurally('C09:unpaired:add-assign', 'C09:unpaired:add-assign', 'Unpaired += does not merge a with a and b with b')
    # ---- value of a merged register, over the reals: value(a (+) b) = value(a) + value(b) - 2*compensation(a).
    # value() reports sum + compensation while kahan_add maintains sum - compensation, so a merge (also with an EMPTY
    # right operand) moves the reported value by twice the left compensation - a rounding-level quantity (|c| <= 2u|sum|, C08 L1),
    # which is why "the empty state is neutral" holds up to rounding and not bit for bit.
    s, c, rs, rc = T.var('s'), T.var('c'), T.var('rs'), T.var('rc')
    ms, mc = merge_reg((s, c), (rs, rc))
    val = lambda x, y: T.mk('fadd', x, y)
    m.submit('C09:kahan:merge-value', [], T.mk('feq', val(ms, mc), T.mk('fsub', T.mk('fadd', val(s, c), val(rs, rc)), T.mk('fmul', T.fconst(2), c))), key='C09:kahan:merge-value', vacuity=False,
             note='value(a (+) b) = value(a) + value(b) - 2 c_a over the reals; with b empty the value moves by 2 c_a = O(u |sum_a|)')
    zero = T.fconst(0)
    ms, mc = merge_reg((zero, zero), (s, c))
    m.submit('C09:kahan:empty-left-neutral', [], T.mk('feq', val(ms, mc), val(s, c)), key='C09:kahan:empty-neutral', vacuity=False, note='empty (+) a has the value of a (reals)')
    m.collect()


def m_self(m, f):
    return mir.Machine(m.fns, m.src_root, m.models).impl_self_type(f)
