"""C06 — critical values are true t / normal quantiles.
What a solver can decide is the REDUCTION: every critical value this crate uses is statrs' StudentsT(0,1,dof).inverse_cdf(p)
or Normal(0,1).inverse_cdf(p) with p = (1+L)/2 (two-sided) / L (one-sided), dof = n-1 / the documented effective dof, the switch
at dof >= 100000, the span = c*se without absolute value, and each call consulting the oracle afresh. That statrs' inverse CDFs are
the true quantiles is NOT encodable (iterative special-function code) and is trusted; level `other`."""
from vlib import core
from mirsmt import engine as E, term as T, mir
from props.common_m import *
from props import c04


def run(ctx):
    ctx.level = 'other'
    ctx.extra['explanation'] = ('Reduction to the statrs oracle, decided by engine K on the compiled code (stub recorders at the trait-impl boundary observe which statrs method '
                                'receives which arguments, for every confidence and every positive dof) and by engine M on the MIR of the three producers (oracle arguments as real identities). '
                                'The numerical truth of statrs\' inverse CDFs (incomplete beta / bisection loops) is outside every installed solver and is trusted; the dependency is pinned by Cargo.lock.')
    ctx.assumptions += ['TRUSTED, not checked: statrs 0.18 StudentsT::inverse_cdf and Normal::inverse_cdf return the true quantiles (hence "coverage exactly L under normal sampling" is not decided here)',
                        'K stubs: the two inverse_cdf trait-impl methods are replaced by recorders returning an arbitrary finite value with the sign contract; constructors stay real',
                        'interval_bounds is run with mean = 0 and standard error in {1, 2} so that span = c*se needs no float recomputation in the harness; the general formula is C01/C04\'s M obligation']
    core.run_kani_set(ctx, ['c06_'], bound='every confidence (all f64 levels in (0,1), 3 kinds), every finite dof > 0', harness_timeout=1200)
    m = E.MEngine(ctx)
    if not m.ok:
        return
    try:
        # arithmetic: Tq((1+L)/2 | L, n-1) / Zq
        by, _ = arith_ci_paths(m)
        n = T.mk('i2f', T.var('n', 'i'))
        base = [T.mk('ige', T.var('n', 'i'), T.iconst(2))]
        for (k, t), (pc, variant, bounds) in sorted(by.items()):
            cnt = check_oracle_args(m, 'C06:arith', pc, bounds, k, 'Tq' if t else 'Zq', T.mk('fsub', n, T.fconst(1)) if t else None, hyps=base)
            if cnt == 0:
                m.violated_structurally('C06:arith:oracle:%s' % KNAME[k], 'C06:arith:oracle', 'no %s application in the returned bounds' % ('Tq' if t else 'Zq'))
            lim = T.mk('flt', T.mk('fsub', n, T.fconst(1)), T.fconst(100000))
            m.submit('C06:arith:t-z-switch:%s:%s' % (KNAME[k], 'T' if t else 'Z'), pc + base + LEVEL_OK, lim if t else T.not_(lim), key='C06:arith:t-z-switch', note='t strictly below 100000 degrees of freedom')
        # proportions: Zq at the quantile
        for fname, tag in (('ci_wilson', 'wilson'), ('ci_z_normal', 'z_normal')):
            for p in proportion_paths(m, fname):
                if p['rk'] == 'return' and E.is_ok(p['value']):
                    variant, bounds = E.interval_parts(p['value'])
                    if oracle_guard(ctx, m, 'C06:' + tag, p['pc'], bounds):
                        check_oracle_args(m, 'C06:' + tag, p['pc'], bounds, p['kind'], 'Zq')
        # proportions: the critical value enters the bounds WITH ITS SIGN (Phi(z) = L puts z below 0 for one-sided levels below 1/2):
        # lower(-z) = upper(z) on the one-sided Ok paths, i.e. no square, absolute value or sqrt(z^2 ...) swallows the sign
        from props import c17
        from props.c02_m import Z
        c17.GUARD[:] = [ctx, 'C06']
        for fname, tag, lo_dom in (('ci_wilson', 'wilson', 2), ('ci_z_normal', 'wald', 10)):
            ex = c17.extract(m, fname)
            if set(ex) != {0, 1, 2}:
                m.stuck('C06:%s:signed-critical-value' % tag, 'Ok paths for kinds %s only' % sorted(ex))
                continue
            pcu, lou, hiu = ex[1]
            pcl, lol, hil = ex[2]
            neg = lambda x: rename(x, {'Z': T.mk('fneg', Z)})
            dom = [T.mk('fge', c17.k_f, T.fconst(lo_dom)), T.mk('fge', T.mk('fsub', c17.n_f, c17.k_f), T.fconst(lo_dom))]
            m.submit('C06:%s:signed-critical-value' % tag, nokind(pcu) + nokind(pcl) + dom, T.and_(T.mk('feq', neg(lou), hil), T.mk('feq', neg(hil), lou)),
                     key='C06:%s:signed-critical-value' % tag, timeout=120, note='lower(-z) = upper(z): the implied z of a one-sided interval at a level below 1/2 is negative')
        # unpaired: the documented effective degrees of freedom (real-valued, not rounded), t/z switch, formula: C04's obligations are part of this reduction
        c04.unpaired(ctx, m)
        # unpaired: quantile argument
        for r in c04.unpaired_paths(m):
            if r.kind == 'return' and E.is_ok(r.value):
                variant, bounds = E.interval_parts(r.value)
                k = E.pc_kind(r.pc)
                t = bool(any(apps_in(b, 'Tq') for b in bounds))
                check_oracle_args(m, 'C06:unpaired', r.pc, bounds, k, 'Tq' if t else 'Zq', hyps=[T.mk('ige', T.var('na', 'i'), T.iconst(2)), T.mk('ige', T.var('nb', 'i'), T.iconst(2))])
    except mir.Stuck as e:
        m.stuck('C06:M', 'unsupported construct: %s' % e)
    m.finish()
