"""C02, engine M: Wilson / Wald formulas, exact integer domains, ratio front end (see props/c02.py)."""
from fractions import Fraction
from mirsmt import engine as E, term as T, mir
from props.common_m import *

TRUSTED = ['real-arithmetic semantics for floats in the formula obligations (R); integers exact (Int) in the domain obligations, relaxed to reals in the formula obligations',
           'ratio front end: reals with a relative rounding error |delta| <= 2^-53 per float operation (standard model, valid absent under/overflow) for n <= 2^32',
           'oracle Zq(p) = statrs Normal(0,1).inverse_cdf, uninterpreted', 'MIR call models listed under call_models_used', 'z3 5.1 nlsat']

n_i, k_i = T.var('n', 'i'), T.var('k', 'i')
n_f, k_f = T.mk('i2f', n_i), T.mk('i2f', k_i)
Z = T.var('Z')


def run(ctx):
    ctx.trusted_base = TRUSTED
    ctx.assumptions += [
        'M: formula obligations are real-arithmetic identities/inequalities for all real n >= 4, 2 <= k <= n-2 and every real z (sign as stated per obligation); domain obligations are exact over the integers',
    ]
    m = E.MEngine(ctx)
    if not m.ok:
        return
    try:
        wilson(ctx, m)
        wald(ctx, m)
        ratio(ctx, m)
        frontends(ctx, m)
    except mir.Stuck as e:
        m.stuck('C02:M', 'unsupported construct: %s' % e)
    m.finish()


def domain_obligations(m, prefix, paths, spec):
    """spec: {outcome class: condition term over ints}. Each path's condition must imply the class condition (paths
    partition the input space, so implication per path gives equivalence)."""
    INT = ('R', 'int')
    nonneg = [T.mk('ige', n_i, T.iconst(0)), T.mk('ige', k_i, T.iconst(0))]
    for p in paths:
        v = p['value']
        if p['rk'] == 'stuck':
            m.stuck(prefix + ':path', v[1])
            continue
        if p['rk'] == 'panic':
            m.submit('%s:no-panic[%s]' % (prefix, v[1][:30]), p['pc'] + nonneg + LEVEL_OK, T.bconst(False), sem=INT, key=prefix + ':panic', note='panic path infeasible for all n, k >= 0')
            continue
        cls = None
        if E.is_ok(v):
            cls = 'Ok'
        elif E.is_err(v):
            e = v[3][0]
            cls = mir.VARIANTS['CIError'][e[2]] if e[0] == 'adt' and e[1] == 'CIError' else 'other'
        if cls == 'IntervalError':
            cls = 'Ok'           # inverted bounds can only arise inside the admissible domain
        if cls not in spec:
            m.violated_structurally('%s:domain:%s' % (prefix, cls), prefix + ':domain', 'undocumented outcome %s' % cls)
            continue
        m.submit('%s:domain:%s:%s' % (prefix, cls, KNAME[p['kind']] if p['kind'] is not None else 'any'), p['pc'] + nonneg + LEVEL_OK, spec[cls], sem=INT,
                 key='%s:domain:%s' % (prefix, cls), note='outcome %s exactly on its documented domain' % cls, vacuity=False)


def fp_domain(m, prefix, paths, lo_dom):
    """The documented domain on the COUNTS, decided bit-precisely: at F(11,53) with n, k as bit-vectors (n <= 2^32) an Ok path
    needs lo_dom <= k <= n - lo_dom, and a TooFew* path needs the opposite. (Over the reals a rule written as n*(k/n) >= 10
    is indistinguishable from k >= 10; in floating point it is not.)"""
    FP = ('F', 11, 53, 'bv')
    bound = [T.mk('ile', n_i, T.iconst(2 ** 32)), T.mk('ile', k_i, T.iconst(2 ** 32))]
    lo = T.iconst(lo_dom)
    inside = T.and_(T.mk('ige', k_i, lo), T.mk('ile', k_i, n_i), T.mk('ige', T.mk('isub', n_i, k_i), lo))
    # the normal quantile enters the Ok paths only through the bounds, not through the path condition of the domain checks;
    # Interval::new's `low > high` test is dropped from the path condition (it cannot fire inside the domain, C02 order obligations)
    for p in paths:
        if p['rk'] != 'return':
            continue
        v = p['value']
        pc = [c for c in p['pc'] if not apps_in(c)]
        if E.is_ok(v):
            m.submit('%s:fp-domain:ok-only-inside:%s' % (prefix, KNAME[p['kind']] if p['kind'] is not None else 'any'), pc + bound, inside, sem=FP, key=prefix + ':fp-domain', timeout=120, vacuity=False, solver='cvc5',
                     note='bit-precise: an Ok outcome needs %d <= k <= n - %d (n <= 2^32)' % (lo_dom, lo_dom))
        elif E.is_err(v, 'TooFewSuccesses') or E.is_err(v, 'TooFewFailures'):
            m.submit('%s:fp-domain:rejects-only-outside:%s' % (prefix, mir.VARIANTS['CIError'][v[3][0][2]]), pc + bound, T.not_(inside), sem=FP, key=prefix + ':fp-domain', timeout=120, vacuity=False, solver='cvc5',
                     note='bit-precise: TooFew* only outside the documented domain (n <= 2^32)')


def wilson(ctx, m):
    paths = proportion_paths(m, 'ci_wilson')
    ctx.extra['ci_wilson_paths'] = len(paths)
    two = T.iconst(2)
    spec = {'InvalidSuccesses': T.mk('igt', k_i, n_i),
            'TooFewSuccesses': T.and_(T.mk('ile', k_i, n_i), T.mk('ilt', k_i, two)),
            'TooFewFailures': T.and_(T.mk('ile', k_i, n_i), T.mk('ige', k_i, two), T.mk('ilt', T.mk('isub', n_i, k_i), two)),
            'Ok': T.and_(T.mk('ige', k_i, two), T.mk('ile', k_i, n_i), T.mk('ige', T.mk('isub', n_i, k_i), two))}
    domain_obligations(m, 'C02:wilson', paths, spec)
    fp_domain(m, 'C02:wilson', paths, 2)
    dom = [T.mk('fge', k_f, T.fconst(2)), T.mk('fge', T.mk('fsub', n_f, k_f), T.fconst(2))]
    phat = T.mk('fdiv', k_f, n_f)
    seen = set()
    for p in paths:
        v = p['value']
        if p['rk'] != 'return' or not E.is_ok(v):
            continue
        k = p['kind']
        variant, bounds = E.interval_parts(v)
        if not oracle_guard(ctx, m, 'C02:wilson', p['pc'], bounds):
            continue
        seen.add(k)
        if variant != 'TwoSided' or len(bounds) != 2:
            m.violated_structurally('C02:wilson:shape:' + KNAME[k], 'C02:wilson:shape', 'proportion interval must be stored two-sided, got %s' % variant)
            continue
        check_oracle_args(m, 'C02:wilson', p['pc'], bounds, k, 'Zq')
        lo, hi = [abstract_apps(b, {'Zq': Z}) for b in bounds]
        hyp = [abstract_apps(c, {'Zq': Z}) for c in p['pc']] + dom

        def root(b):        # (b - k/n)^2 = z^2 b(1-b)/n
            return T.mk('feq', T.mk('fmul', T.mk('fsub', b, phat), T.mk('fsub', b, phat)),
                        T.mk('fdiv', T.mk('fmul', T.mk('fmul', Z, Z), T.mk('fmul', b, T.mk('fsub', T.fconst(1), b))), n_f))
        one, zero = T.fconst(1), T.fconst(0)
        zpos = [T.mk('fge', Z, zero)]
        if k == 0:
            m.submit('C02:wilson:roots:two-sided', hyp, T.and_(root(lo), root(hi)), key='C02:wilson:roots:two-sided', note='both bounds solve the score equation, any real z')
            m.submit('C02:wilson:order:two-sided', hyp + zpos, T.and_(T.mk('fle', zero, lo), T.mk('fle', lo, phat), T.mk('fle', phat, hi), T.mk('fle', hi, one)),
                     key='C02:wilson:order:two-sided', note='0 <= lower root <= k/n <= upper root <= 1 for z >= 0')
        elif k == 1:
            m.submit('C02:wilson:roots:upper', hyp, T.and_(root(lo), T.mk('feq', hi, one)), key='C02:wilson:roots:upper', note='[root, 1]')
            m.submit('C02:wilson:order:upper', hyp + zpos, T.and_(T.mk('fle', zero, lo), T.mk('fle', lo, phat)), key='C02:wilson:order:upper', note='finite bound is the LOWER root for z >= 0')
            m.submit('C02:wilson:order:upper:neg-z', hyp + [T.mk('fle', Z, zero)], T.and_(T.mk('fle', phat, lo), T.mk('fle', lo, one)), key='C02:wilson:order:upper:neg-z',
                     note='for a level below 1/2 (z <= 0) the bound moves above k/n (no absolute value on the span)')
        else:
            m.submit('C02:wilson:roots:lower', hyp, T.and_(root(hi), T.mk('feq', lo, zero)), key='C02:wilson:roots:lower', note='[0, root]')
            m.submit('C02:wilson:order:lower', hyp + zpos, T.and_(T.mk('fle', phat, hi), T.mk('fle', hi, one)), key='C02:wilson:order:lower', note='finite bound is the UPPER root for z >= 0')
            m.submit('C02:wilson:order:lower:neg-z', hyp + [T.mk('fle', Z, zero)], T.and_(T.mk('fle', zero, hi), T.mk('fle', hi, phat)), key='C02:wilson:order:lower:neg-z',
                     note='for a level below 1/2 (z <= 0) the bound moves below k/n')
        m.submit('C02:wilson:feasible:' + KNAME[k], hyp + zpos, None, expect='sat', key='C02:vacuity')
    for k in (0, 1, 2):
        if k not in seen:
            m.stuck('C02:wilson:coverage', 'no Ok path for kind %d' % k)
    m.collect()


def wald(ctx, m):
    paths = proportion_paths(m, 'ci_z_normal')
    ten = T.iconst(10)
    spec = {'InvalidSuccesses': T.mk('igt', k_i, n_i),
            'TooFewSuccesses': T.and_(T.mk('ile', k_i, n_i), T.mk('ilt', k_i, ten)),
            'TooFewFailures': T.and_(T.mk('ile', k_i, n_i), T.mk('ige', k_i, ten), T.mk('ilt', T.mk('isub', n_i, k_i), ten)),
            'Ok': T.and_(T.mk('ige', k_i, ten), T.mk('ile', k_i, n_i), T.mk('ige', T.mk('isub', n_i, k_i), ten))}
    domain_obligations(m, 'C02:z_normal', paths, spec)
    fp_domain(m, 'C02:z_normal', paths, 10)
    phat = T.mk('fdiv', k_f, n_f)
    W = T.var('W')
    inner = T.mk('fdiv', T.mk('fmul', phat, T.mk('fsub', T.fconst(1), phat)), n_f)
    wit = [T.mk('fge', W, T.fconst(0)), T.mk('feq', T.mk('fmul', W, W), inner), T.mk('fge', k_f, T.fconst(10)), T.mk('fge', T.mk('fsub', n_f, k_f), T.fconst(10))]
    for p in paths:
        v = p['value']
        if p['rk'] != 'return' or not E.is_ok(v):
            continue
        k = p['kind']
        variant, bounds = E.interval_parts(v)
        if not oracle_guard(ctx, m, 'C02:z_normal', p['pc'], bounds):
            continue
        if variant != 'TwoSided':
            m.violated_structurally('C02:z_normal:shape:' + KNAME[k], 'C02:z_normal:shape', 'got %s' % variant)
            continue
        check_oracle_args(m, 'C02:z_normal', p['pc'], bounds, k, 'Zq')
        lo, hi = [abstract_apps(b, {'Zq': Z}) for b in bounds]
        lo_s, hi_s = T.mk('fsub', phat, T.mk('fmul', Z, W)), T.mk('fadd', phat, T.mk('fmul', Z, W))
        goal = {0: T.and_(T.mk('feq', lo, lo_s), T.mk('feq', hi, hi_s)), 1: T.and_(T.mk('feq', lo, lo_s), T.mk('feq', hi, T.fconst(1))),
                2: T.and_(T.mk('feq', lo, T.fconst(0)), T.mk('feq', hi, hi_s))}[k]
        m.submit('C02:z_normal:formula:' + KNAME[k], [abstract_apps(c, {'Zq': Z}) for c in p['pc']] + wit, goal, key='C02:z_normal:formula:' + KNAME[k], note='k/n -/+ z*sqrt((k/n)(1-k/n)/n), far end 1 / 0 for one-sided')
    m.collect()


def ratio(ctx, m):
    """ci_wilson_ratio(conf, n, k/n) must hand exactly k to ci_wilson."""
    f = m.fn('ci_wilson_ratio')
    rate = T.var('rate')
    # stop at the call to ci_wilson: record its arguments
    rec = []
    orig = m.models.dispatch

    def dispatch(mach, st, fid, callee, argv):
        if callee.split('::')[-1] == 'ci_wilson':
            rec.append((list(st['pc']), argv))
            return [(None, ('adt', 'Result', 0, [('adt', 'Interval', 0, [('f', T.var('MARK_LO')), ('f', T.var('MARK_HI'))])]))]
        return orig(mach, st, fid, callee, argv)
    m.models.dispatch = dispatch
    try:
        res = m.run(f, [E.confidence(), E.iv('n'), ('f', rate)])
    finally:
        m.models.dispatch = orig
    bad = [r for r in res if r.kind == 'stuck']
    if bad:
        m.stuck('C02:ratio', bad[0].value[1])
        return
    if len(rec) != 1:
        m.stuck('C02:ratio', 'expected exactly one call to ci_wilson, saw %d' % len(rec))
        return
    pc, argv = rec[0]
    if not (argv[1][0] == 'i' and argv[1][1] == n_i):
        m.violated_structurally('C02:ratio:population', 'C02:ratio:population', 'population passed on is %s' % mir.show(argv[1]))
    succ = argv[2][1]
    # substitute rate := fl(k / n) and use the relative-error rounding model
    succ_k = T.substitute(succ, {rate: T.mk('fdiv', k_f, n_f)})
    pc_k = [T.substitute(c, {rate: T.mk('fdiv', k_f, n_f)}) for c in pc]
    dom = [T.mk('ige', k_i, T.iconst(2)), T.mk('ile', k_i, T.mk('isub', n_i, T.iconst(2))), T.mk('ile', n_i, T.iconst(2 ** 32))]
    goal = int_conversion_goal(succ_k, k_i)
    m.submit('C02:ratio:implied-count', pc_k + dom, goal, sem=('RE', 53), key='C02:ratio:implied-count', timeout=120,
             note='(k/n as f64) * n converted back gives exactly k for every 2 <= k <= n-2, n <= 2^32 (relative rounding error model)',
             on_sat=lambda model, p: ratio_witness(ctx, m, succ, rate))
    m.submit('C02:ratio:non-positive-rejected', [T.mk('fle', rate, T.fconst(0))] + pc, T.bconst(False), key='C02:ratio:non-positive', note='ci_wilson is not reached for a rate <= 0')
    m.collect()


def int_conversion_goal(succ, k):
    """`succ == k` for succ = (P).round() as usize / P as usize, as an equivalent condition on the real P (k >= 1)."""
    kf = T.mk('i2f', k)
    half = T.fconst(Fraction(1, 2))
    if succ[0] == 'f2i' and succ[1][0] == 'fround':
        P = succ[1][1]
        return T.and_(T.mk('fle', T.mk('fsub', kf, half), P), T.mk('flt', P, T.mk('fadd', kf, half)))
    if succ[0] == 'f2i' and succ[1][0] in ('ffloor', 'ftrunc'):
        P = succ[1][1]
        return T.and_(T.mk('fle', kf, P), T.mk('flt', P, T.mk('fadd', kf, T.fconst(1))))
    if succ[0] == 'f2i':
        P = succ[1]
        return T.and_(T.mk('fle', kf, P), T.mk('flt', P, T.mk('fadd', kf, T.fconst(1))))
    return T.mk('ieq', succ, k)


def ratio_witness(ctx, m, succ, rate):
    """The relative-error model found the conversion can miss k: ask for a bit-precise f64 witness and replay it natively."""
    from mirsmt import smt
    from vlib import native
    succ_k = T.substitute(succ, {rate: T.mk('fdiv', k_f, n_f)})
    # not(k recovered), as float comparisons on the product (exact for these small integers); n, k as bit-vectors
    hyps = [T.mk('ige', k_i, T.iconst(2)), T.mk('ile', k_i, T.mk('isub', n_i, T.iconst(2))), T.mk('ile', n_i, T.iconst(2 ** 24)), T.mk('ige', n_i, T.iconst(4)),
            T.not_(int_conversion_goal(succ_k, k_i))]
    text = m.query_text(hyps, None, sem=('F', 11, 53, 'bv'))
    for solver, tmo in (('cvc5', 200), ('z3-new', 300)):
        verdict, out, dt = smt.run_solver(text, solver, tmo, ctx.seed)
        ctx.solver_time += dt
        if verdict == 'sat':
            vals = {}
            import re
            for mm in re.finditer(r'\(define-fun (\w+) \(\) \(_ BitVec 64\)\s+#(x|b)([0-9a-f]+)\)', out):
                vals[mm.group(1)] = int(mm.group(3), 16 if mm.group(2) == 'x' else 2)
            if 'n' in vals and 'k' in vals:
                return native.replay_ratio(ctx, vals['n'], vals['k'])
    return False, None, 'no bit-precise witness found within the budget'


def re_int(out):
    import re
    for mm in re.finditer(r'\(define-fun (\w+) \(\) Int\s+(\(- \d+\)|\d+)\)', out):
        v = mm.group(2)
        yield mm.group(1), -int(v[3:-1]) if v.startswith('(') else int(v)


def frontends(ctx, m):
    """ci(conf,n,k) and Stats::ci are single calls: ci -> ci_wilson(conf,n,k), Stats::ci -> ci(conf, population, successes)."""
    cands = [g for g in m.fns if g.short == 'ci' and '<impl at' not in g.name and len(g.args) == 3 and 'usize' in g.args[1][1]]
    if len(cands) != 1:
        m.stuck('C02:frontend:ci', 'cannot identify proportion::ci in the MIR dump')
        return
    rec = []
    orig = m.models.dispatch

    def dispatch(mach, st, fid, callee, argv):
        if callee.split('::')[-1] == 'ci_wilson':
            rec.append(argv)
            return [(None, ('opaque', 'WILSON-RESULT'))]
        return orig(mach, st, fid, callee, argv)
    m.models.dispatch = dispatch
    try:
        res = m.run(cands[0], [E.confidence(), E.iv('n'), E.iv('k')])
        ok = len(res) == 1 and res[0].kind == 'return' and res[0].value == ('opaque', 'WILSON-RESULT') and len(rec) == 1 and rec[0][1][1] == n_i and rec[0][2][1] == k_i \
            and rec[0][0][0] == 'symenum' and rec[0][0][2] == KIND and rec[0][0][3][0][1] == L
        if ok:
            ctx.record('C02:frontend:ci:term-identity', 'M', 'held', bound='syntactic', sample={'obligation': 'proportion::ci(conf,n,k) == ci_wilson(conf,n,k)', 'verdict': 'same terms'})
        else:
            m.violated_structurally('C02:frontend:ci:term-identity', 'C02:frontend:ci', 'proportion::ci does not return ci_wilson(conf, n, k)')
        rec.clear()
        fs = m.fn('ci', 'Stats', 'inherent') if False else [g for g in m.fns if g.short == 'ci' and 'proportion' in g.name and '<impl at' in g.name and len(g.args) == 2]
        if len(fs) == 1:
            st = ('adt', 'Stats', 0, [E.iv('n'), E.iv('k')])
            ref, extra = E.self_ref(st)
            res = m.run(fs[0], [ref, E.confidence()], extra)
            ok = len(res) == 1 and res[0].kind == 'return' and res[0].value == ('opaque', 'WILSON-RESULT') and len(rec) == 1 and rec[0][1][1] == n_i and rec[0][2][1] == k_i
            if ok:
                ctx.record('C02:frontend:stats_ci:term-identity', 'M', 'held', bound='syntactic', sample={'obligation': 'Stats::ci(conf) == ci_wilson(conf, population, successes)', 'verdict': 'same terms'})
            else:
                m.violated_structurally('C02:frontend:stats_ci:term-identity', 'C02:frontend:stats_ci', 'Stats::ci does not return ci_wilson(conf, population, successes)')
        else:
            m.stuck('C02:frontend:stats_ci', 'cannot identify proportion::Stats::ci')
    finally:
        m.models.dispatch = orig
