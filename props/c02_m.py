def run(ctx):
    pass
