"""C01 — arithmetic-mean CI is the Student-t interval of the exact sample statistics.
Engine M (real arithmetic): the expression DAG extracted from the MIR of Arithmetic::<F>::ci_mean (with sample_mean,
sample_variance, sample_std_dev, KahanSum::value, try_f64, interval_bounds, t_value/z_value, Confidence::quantile,
Interval::new inlined) is the textbook formula, for every accumulator state (= every sample length).
Engine K: the feeding loops (extend / from_iter / ci) are folds of append; trait methods delegate."""
from vlib import core
from mirsmt import engine as E, term as T, mir
from mirsmt.engine import fv, iv

TRUSTED = ['real-arithmetic semantics for floats (rounding is outside these obligations; see C08 for the sums)',
           'integers relaxed to reals where they only feed float casts', 'oracles Tq(p,dof), Zq(p): statrs inverse CDFs, uninterpreted (their truth is C06\'s trusted half)',
           'MIR call models listed under call_models_used', 'z3 5.1 nlsat']


def spec_terms(prefix=''):
    """Textbook quantities over the symbolic state (s,sc,q,qc,n): Sigma = s+sc (KahanSum::value), Q = q+qc."""
    p = prefix
    S = T.mk('fadd', T.var('s' + p), T.var('sc' + p))
    Q = T.mk('fadd', T.var('q' + p), T.var('qc' + p))
    n = T.mk('i2f', T.var('n' + p, 'i'))
    mean = T.mk('fdiv', S, n)
    # (Q - S^2/n)/(n-1)
    var = T.mk('fdiv', T.mk('fsub', Q, T.mk('fdiv', T.mk('fmul', S, S), n)), T.mk('fsub', n, T.fconst(1)))
    return S, Q, n, mean, var


def run(ctx):
    ctx.level = 'proof'
    ctx.trusted_base = TRUSTED
    ctx.assumptions += [
        'M obligations are identities / implications over the reals for ALL accumulator states (sum, compensation, sum_sq, compensation_sq, count >= 2) and all levels in (0,1): any sample length, any data; "xbar and s are the true mean and standard deviation" is established up to the compensated sums (C08) by the append term identity',
        'generic F: the same MIR body serves f32 and f64; casts between them are the identity under R',
        'an end-to-end ulp bound of the interval is outside the claim (the statement says "commensurate with conditioning")',
        'K: feeding loops with <= 3 symbolic observations; append/ci_mean replaced by recorders (moves only)',
        'translator validation: 12 pinned inputs of the repository (100-element data set, README data, 1..10; (500,421), (20,10), (30,20), (10000,89), (15,8)) through the native crate and through the MIR-extracted terms evaluated by z3 at F(11,53) with statrs\' value for the oracle: results must be bit-identical',
    ]
    core.run_kani_set(ctx, ['c01_', 'c06_interval_bounds', 'c06_t_and_z', 'c06_critical_value'], bound='<= 3 observations, recorder stubs', harness_timeout=600)
    m = E.MEngine(ctx)
    if not m.ok:
        return
    try:
        obligations(ctx, m)
        # translator validation: the MIR interpreter reproduces the natively compiled crate bit for bit on the repo's pinned inputs
        from mirsmt import validate
        validate.run(ctx, m)
    except mir.Stuck as e:
        m.stuck('C01:M', 'unsupported construct: %s' % e)
    m.finish()


def obligations(ctx, m):
    L = T.var('L')
    kind = T.var('kind', 'i')
    S, Q, n, mean, var = spec_terms()
    base = [T.mk('ige', T.var('n', 'i'), T.iconst(2)), T.mk('flt', T.fconst(0), L), T.mk('flt', L, T.fconst(1))]
    # ---- Confidence::quantile
    fq = m.fn('quantile', 'Confidence')
    ref, extra = E.self_ref(E.confidence())
    for r in m.run(fq, [ref], extra):
        if r.kind != 'return':
            m.stuck('C01:quantile', 'quantile path %s' % r.kind)
            continue
        k = E.pc_kind(r.pc)
        want = T.mk('fdiv', T.mk('fadd', T.fconst(1), L), T.fconst(2)) if k == 0 else L
        m.submit('C01:quantile:kind%s' % k, r.pc + base, T.mk('feq', r.value[1], want), key='C01:quantile', note='(1+L)/2 two-sided, L one-sided')
    # ---- ci_mean paths
    f = m.fn('ci_mean', 'Arithmetic', 'inherent')
    ref, extra = E.self_ref(E.arith())
    res = m.run(f, [ref, E.confidence()], extra)
    ctx.extra['ci_mean_paths'] = len(res)
    q_two = T.mk('fsub', T.fconst(1), T.mk('fdiv', T.mk('fsub', T.fconst(1), L), T.fconst(2)))
    sd = T.var('SD')       # sqrt(var) witness, rn = sqrt(n)
    rn = T.var('RN')
    wit = [T.mk('fge', var, T.fconst(0)), T.mk('fge', sd, T.fconst(0)), T.mk('feq', T.mk('fmul', sd, sd), var),
           T.mk('fge', rn, T.fconst(0)), T.mk('feq', T.mk('fmul', rn, rn), n)]
    seen_ok = set()
    for r in res:
        if r.kind == 'stuck':
            m.stuck('C01:ci_mean:path', r.value[1])
            continue
        if r.kind == 'panic':
            # no panic is reachable with count >= 2 (count < 2 must have returned TooFewSamples before)
            m.submit('C01:ci_mean:no-panic[%s]' % r.value[1][:40], r.pc + base, T.bconst(False), key='C01:ci_mean:panic', note='panic path must be infeasible for n >= 2')
            continue
        v = r.value
        if E.is_err(v, 'TooFewSamples'):
            m.submit('C01:ci_mean:too-few-samples-only-below-2', r.pc + base, T.bconst(False), key='C01:ci_mean:too-few-samples', note='TooFewSamples is infeasible for n >= 2')
            continue
        if E.is_err(v):
            # InvalidInputData is unreachable under R (is_finite = true); InvalidBounds needs lo > hi
            continue
        if not E.is_ok(v):
            m.stuck('C01:ci_mean:value', mir.show(v)[:100])
            continue
        variant, bounds = E.interval_parts(v)
        k = E.pc_kind(r.pc)
        uses_t = any(T.contains(b, lambda t: t[0] == 'app' and t[1] == 'Tq') for b in bounds)
        uses_z = any(T.contains(b, lambda t: t[0] == 'app' and t[1] == 'Zq') for b in bounds)
        from props.common_m import oracle_guard
        if not oracle_guard(ctx, m, 'C01:ci_mean', r.pc, bounds):
            continue
        tag = 'kind%s:%s' % (k, 'T' if uses_t else 'Z')
        seen_ok.add((k, uses_t))
        # (4) kind -> shape
        if k is None or variant != ['TwoSided', 'UpperOneSided', 'LowerOneSided'][k]:
            m.violated_structurally('C01:shape:' + tag, 'C01:shape', 'confidence kind %s yields interval variant %s' % (k, variant))
            continue
        # (2) t below the population limit, z from it on: read off the path condition
        dof = T.mk('fsub', n, T.fconst(1))
        lim = T.mk('flt', dof, T.fconst(100000))
        m.submit('C01:t-z-switch:' + tag, r.pc + base, lim if uses_t else T.not_(lim), key='C01:t-z-switch', note='t iff n-1 < 100000')
        qexp = T.mk('fdiv', T.mk('fadd', T.fconst(1), L), T.fconst(2)) if k == 0 else L
        c = T.mk('app', 'Tq', qexp, dof) if uses_t else T.mk('app', 'Zq', qexp)
        # the oracle is applied to exactly (quantile, n-1): as real identities on the arguments
        for b in bounds:
            apps = []
            T.contains(b, lambda t: apps.append(t) or False if t[0] == 'app' else False)
            for a in set(apps):
                m.submit('C01:oracle-args:' + tag, r.pc + base, T.and_(T.mk('feq', a[2], qexp), T.mk('feq', a[3], dof) if uses_t else T.bconst(True)),
                         key='C01:oracle-args', note='critical value = %s(quantile%s)' % (a[1], ', n-1' if uses_t else ''))
        # (3) bounds = mean -/+ c*sd/sqrt(n) -- abstract the oracle application by a fresh real C (identity must hold for every value,
        # negative ones included: no |.| on the span)
        C = T.var('C')
        def abstract(b):
            return T.walk(b, lambda op, args, old: C if op == 'app' else T.mk(op, *args))
        span = T.mk('fdiv', T.mk('fmul', C, sd), rn)
        lo_spec = T.mk('fsub', mean, span)
        hi_spec = T.mk('fadd', mean, span)
        if variant == 'TwoSided':
            goal = T.and_(T.mk('feq', abstract(bounds[0]), lo_spec), T.mk('feq', abstract(bounds[1]), hi_spec))
        elif variant == 'UpperOneSided':
            goal = T.mk('feq', abstract(bounds[0]), lo_spec)
        else:
            goal = T.mk('feq', abstract(bounds[0]), hi_spec)
        m.submit('C01:formula:' + tag, r.pc + base + wit, goal, key='C01:formula:' + ['two-sided', 'upper', 'lower'][k], timeout=60,
                 note='bounds = Sigma/n -/+ c*sqrt((Q-Sigma^2/n)/(n-1))/sqrt(n) for every real c')
        m.submit('C01:feasible:' + tag, r.pc + base + wit, None, expect='sat', key='C01:vacuity', note='path premises satisfiable')
    for k in (0, 1, 2):
        for t_ in (True, False):
            if (k, t_) not in seen_ok:
                m.stuck('C01:coverage', 'no Ok path for kind %d with %s' % (k, 'Tq' if t_ else 'Zq'))
    # ---- append: (sum, sum_sq, count) -> (sum (+) x, sum_sq (+) x*x, count+1) with (+) the kahan_add term
    fa = m.fn('append', 'Arithmetic', 'inherent')
    ref, extra = E.self_ref(E.arith())
    x = T.var('x')
    for r in m.run(fa, [ref, ('f', x)], extra):
        if r.kind == 'panic':
            m.submit('C01:append:no-overflow', r.pc + [T.mk('ilt', T.var('n', 'i'), T.iconst(2 ** 64 - 1))], T.bconst(False), key='C01:append:panic', sem=('R', 'int'), note='count+1 cannot overflow below usize::MAX')
            continue
        if r.kind != 'return':
            m.stuck('C01:append', str(r.value)[:100])
            continue
        st = r.store['_self']
        def kah(s, c, v):
            y = T.mk('fsub', v, c)
            t = T.mk('fadd', s, y)
            return t, T.mk('fsub', T.mk('fsub', t, s), y)
        s1, c1 = kah(T.var('s'), T.var('sc'), x)
        q1, qc1 = kah(T.var('q'), T.var('qc'), T.mk('fmul', x, x))
        got = (st[3][0][3][0][1], st[3][0][3][1][1], st[3][1][3][0][1], st[3][1][3][1][1], st[3][2][1])
        want = (s1, c1, q1, qc1, T.mk('iadd', T.var('n', 'i'), T.iconst(1)))
        same = all(g is w or g == w for g, w in zip(got, want))
        if same:
            ctx.record('C01:append:term-identity', 'M', 'held', bound='syntactic identity of hash-consed terms',
                       sample={'obligation': 'append maps (sum,c,sum_sq,c2,n) to (kahan(sum,c,x), kahan(sum_sq,c2,x*x), n+1)', 'verdict': 'same DAG'})
        else:
            m.violated_structurally('C01:append:term-identity', 'C01:append', 'append does not accumulate x and x*x by kahan_add: got %s' % ', '.join(T.show(g)[:60] for g in got))
    m.collect()
