"""C05 — geometric / harmonic CIs are the back-transformed arithmetic CIs.
Engine M: term identities (same expression DAG) between Geometric/Harmonic::ci_mean and exp / reciprocal of the
arithmetic CI of the transformed space; real identities for the standard errors. Engine K: rejection of non-positive
observations with the state bitwise unchanged, at every position."""
from vlib import core
from mirsmt import engine as E, term as T, mir
from props.common_m import *
from props.c01 import spec_terms

TRUSTED = ['exp / ln are uninterpreted symbols EXP / LN: the obligations are syntactic identities of expression DAGs, so they hold for every pair of functions (in particular the real exp/ln and the platform\'s rounded ones)',
           'real-arithmetic semantics for the standard-error identities', 'F::infinity()/neg_infinity() are distinct unconstrained symbols under R: if a returned bound used them the identity would be unprovable',
           'MIR call models listed under call_models_used', 'z3 5.1']


def wrapper_paths(m, ty, field_state):
    f = m.fn('ci_mean', ty, 'inherent')
    st = ('adt', ty, 0, [field_state])
    ref, extra = E.self_ref(st)
    res = m.run(f, [ref, E.confidence()], extra)
    by = {}
    for r in res:
        if r.kind == 'stuck':
            raise mir.Stuck(r.value[1])
        if r.kind == 'return' and E.is_ok(r.value):
            variant, bounds = E.interval_parts(r.value)
            k = E.pc_kind(r.pc)
            t = bool(any(apps_in(b, 'Tq') for b in bounds))
            by.setdefault((k, t), []).append((r.pc, variant, bounds))
    return by, res


def run(ctx):
    ctx.level = 'proof'
    ctx.trusted_base = TRUSTED
    ctx.assumptions += ['M: identities hold for every accumulator state with count >= 2 and every level; the harmonic identity is stated on the paths where the reciprocal-space bounds make the result well-formed (the code returns InvalidBounds otherwise)',
                        'harmonic <= geometric <= arithmetic is a theorem about the three means once their formulas are established and is not encoded (outside the claim)',
                        'K: rejection harnesses over every f64/f32 value of the offending observation and arbitrary accumulator states; positions 0..2 of <= 3 observations through ci']
    core.run_kani_set(ctx, ['c05_', 'c11_harmonic', 'c11_geometric'], bound='arbitrary states; <= 3 observations', harness_timeout=900)
    m = E.MEngine(ctx)
    if not m.ok:
        return
    try:
        oblig(ctx, m)
    except mir.Stuck as e:
        m.stuck('C05:M', 'unsupported construct: %s' % e)
    m.finish()


def oblig(ctx, m):
    arith, _ = arith_ci_paths(m)
    geo, gres = wrapper_paths(m, 'Geometric', E.arith())
    har, hres = wrapper_paths(m, 'Harmonic', E.arith())
    EXP = lambda t: T.mk('exp', t)
    REC = lambda t: T.mk('fdiv', T.fconst(1), t)
    for t in (True, False):
        tz = 'T' if t else 'Z'
        for k in (0, 1, 2):
            if (k, t) not in arith:
                m.stuck('C05:coverage', 'no arithmetic Ok path for kind %d %s' % (k, tz))
                continue
            apc, avar, ab = arith[(k, t)]
            # ---- geometric: exp applied bound by bound, same kind
            want = [EXP(b) for b in ab]
            got = geo.get((k, t), [])
            hit = [g for g in got if g[1] == VARIANT[k] and g[2] == want]
            name = 'C05:geometric:ci_mean:%s:%s' % (KNAME[k], tz)
            other = [g for g in got if not (g[1] == VARIANT[k] and g[2] == want)]
            for j, g in enumerate(other if hit else []):
                # any other Ok path must be infeasible
                m.submit(name + ':no-other-outcome[%d]' % j, g[0] + [T.mk('ige', T.var('n', 'i'), T.iconst(2))] + LEVEL_OK, T.bconst(False), key='C05:geometric:ci_mean:' + KNAME[k],
                         note='an Ok path returning anything but exp of the log-space interval must be infeasible', on_sat=lambda model, p, k=k: native_wrapper(ctx, 'geometric', k, model))
            if hit:
                ctx.record(name, 'M', 'held', bound='syntactic (same DAG)', sample={'obligation': 'Geometric::ci_mean == exp(Arithmetic::ci_mean over ln x), %s' % KNAME[k], 'verdict': 'same terms'})
            else:
                m.violated_structurally(name, 'C05:geometric:ci_mean:' + KNAME[k], 'geometric %s interval is not exp of the log-space interval: got %s' % (KNAME[k], [T.show(x)[:80] for g in got for x in g[2]][:2]),
                                        replay=lambda model, p, k=k: native_wrapper(ctx, 'geometric', k))
            # ---- harmonic: reciprocal of the flipped arithmetic interval, ends exchanged
            fk = {0: 0, 1: 2, 2: 1}[k]
            if (fk, t) not in arith:
                continue
            fpc, fvar, fb = arith[(fk, t)]
            if k == 0:
                want = [REC(fb[1]), REC(fb[0])]
            else:
                want = [REC(fb[0])]
            got = har.get((k, t), [])
            hit = [g for g in got if g[1] == VARIANT[k] and g[2] == want]
            name = 'C05:harmonic:ci_mean:%s:%s' % (KNAME[k], tz)
            other = [g for g in got if not (g[1] == VARIANT[k] and g[2] == want)]
            positive = [T.mk('fgt', b_, T.fconst(0)) for b_ in fb]
            for j, g in enumerate(other if hit else []):
                m.submit(name + ':no-other-outcome[%d]' % j, g[0] + positive + [T.mk('ige', T.var('n', 'i'), T.iconst(2))] + LEVEL_OK, T.bconst(False), key='C05:harmonic:ci_mean:' + KNAME[k],
                         note='with strictly positive reciprocal-space bounds, an Ok path returning anything but their reciprocals must be infeasible',
                         on_sat=lambda model, p, k=k: native_wrapper(ctx, 'harmonic', k, model))
            if hit:
                ctx.record(name, 'M', 'held', bound='syntactic (same DAG)', sample={'obligation': 'Harmonic::ci_mean == 1/(flipped Arithmetic::ci_mean over 1/x) with ends exchanged, %s' % KNAME[k], 'verdict': 'same terms'})
            else:
                m.violated_structurally(name, 'C05:harmonic:ci_mean:' + KNAME[k], 'harmonic %s interval is not the reciprocal of the flipped reciprocal-space interval: got %s' % (KNAME[k], [T.show(x)[:80] for g in got for x in g[2]][:2]),
                                        replay=lambda model, p, k=k: native_wrapper(ctx, 'harmonic', k))
    # ---- sample_mean / sample_sem
    S, Q, n, mean, var = spec_terms()
    base = [T.mk('ige', T.var('n', 'i'), T.iconst(2))]
    SD = T.var('SD')
    RN1 = T.var('RN1')
    wit = [T.mk('fge', var, T.fconst(0)), T.mk('fge', SD, T.fconst(0)), T.mk('feq', T.mk('fmul', SD, SD), var), T.mk('fgt', RN1, T.fconst(0)), T.mk('feq', T.mk('fmul', RN1, RN1), T.mk('fsub', n, T.fconst(1)))]
    fam = m.fn('sample_mean', 'Arithmetic', 'inherent')
    ref, extra = E.self_ref(E.arith())
    am = [r for r in m.run(fam, [ref], extra) if r.kind == 'return']
    for ty, back in (('Geometric', EXP), ('Harmonic', REC)):
        f = m.fn('sample_mean', ty, 'inherent')
        ref, extra = E.self_ref(('adt', ty, 0, [E.arith()]))
        r = [x for x in m.run(f, [ref], extra) if x.kind == 'return']
        name = 'C05:%s:sample_mean' % ty.lower()
        if len(r) == 1 and len(am) == 1 and r[0].value == ('f', back(am[0].value[1])):
            ctx.record(name, 'M', 'held', bound='syntactic', sample={'obligation': '%s::sample_mean == %s(arithmetic mean of the transformed data)' % (ty, 'exp' if ty == 'Geometric' else '1/'), 'verdict': 'same terms'})
        else:
            m.violated_structurally(name, name, '%s::sample_mean is not the back-transformed arithmetic mean' % ty)
        f = m.fn('sample_sem', ty, 'inherent')
        ref, extra = E.self_ref(('adt', ty, 0, [E.arith()]))
        rs = m.run(f, [ref], extra)
        for x in rs:
            if x.kind == 'panic':
                m.submit('C05:%s:sample_sem:no-panic' % ty.lower(), x.pc + base, T.bconst(False), key='C05:%s:sample_sem:panic' % ty.lower())
            elif x.kind == 'return':
                g = back(mean)
                spec = T.mk('fdiv', T.mk('fmul', g if ty == 'Geometric' else T.mk('fmul', g, g), SD), RN1)
                m.submit('C05:%s:sample_sem' % ty.lower(), x.pc + base + wit, T.mk('feq', x.value[1], spec), key='C05:%s:sample_sem' % ty.lower(), note='documented delta-method form: %s' % ('G*s_ln/sqrt(n-1)' if ty == 'Geometric' else 'H^2*s_recip/sqrt(n-1)'))
            else:
                m.stuck('C05:%s:sample_sem' % ty.lower(), str(x.value)[:80])
    # ---- append of a positive value feeds ln(x) / 1/x
    for ty, tr in (('Geometric', lambda x: T.mk('ln', x)), ('Harmonic', REC)):
        f = m.fn('append', ty, 'inherent')
        ref, extra = E.self_ref(('adt', ty, 0, [E.arith()]))
        rec = []
        orig = m.models.dispatch

        def dispatch(mach, s, fid, callee, argv):
            if callee.endswith('>::append') or callee.split('::')[-1] == 'append':
                rec.append((list(s['pc']), [mach.deref(s, a) if a[0] == 'ref' else a for a in argv]))
                return [(None, ('adt', 'Result', 0, [('unit',)]))]
            return orig(mach, s, fid, callee, argv)
        m.models.dispatch = dispatch
        try:
            res = m.run(f, [ref, E.fv('x')], extra)
        finally:
            m.models.dispatch = orig
        x = T.var('x')
        name = 'C05:%s:append:transformed-value' % ty.lower()
        ok = len(rec) == 1 and rec[0][1][1] == ('f', tr(x)) and rec[0][1][0] == E.arith()
        rej = [r for r in res if r.kind == 'return' and E.is_err(r.value, 'NonPositiveValue')]
        # the rejection path is exactly x <= 0 and the accepting path exactly not(x <= 0)
        ok = ok and len(rej) == 1 and rej[0].pc == [T.mk('fle', x, T.fconst(0))] and rec[0][0] == [T.not_(T.mk('fle', x, T.fconst(0)))]
        if ok:
            ctx.record(name, 'M', 'held', bound='syntactic', sample={'obligation': '%s::append(x): x <= 0 -> NonPositiveValue; else inner.append(%s)' % (ty, 'ln x' if ty == 'Geometric' else '1/x'), 'verdict': 'same terms'})
        else:
            m.violated_structurally(name, 'C05:%s:append' % ty.lower(), '%s::append does not feed the transformed value exactly when x > 0 (guard %s)' % (ty, [T.show(c) for c in (rec[0][0] if rec else [])]))
    m.collect()


def native_wrapper(ctx, which, k, model=None):
    from vlib import native
    return native.replay_wrapper(ctx, which, k, model)
