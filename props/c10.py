"""C10 — confidence kind and level act coherently on every interval producer.
Engine M (real arithmetic, oracle axioms stated) on the extracted bound terms of every producer; engine K for the result
kind on the compiled code."""
from fractions import Fraction
from vlib import core
from mirsmt import engine as E, term as T, mir
from props.common_m import *
from props import c04, c05, c17
from props.c02_m import n_i, k_i, n_f, k_f, Z

TRUSTED = ['real-arithmetic semantics (the floating-point evaluation of 1-(1-(2L-1))/2 may differ from L in the last place: outside)',
           'oracle axioms: Tq(., dof) and Zq are non-decreasing in p and >= 0 for p >= 1/2 (true of every quantile function of a distribution symmetric about 0)',
           'exp increasing and positive reciprocal decreasing lift the nesting results from the transformed space to geometric / harmonic intervals (C05 shows the bounds are exp / reciprocal of the arithmetic ones, as identical DAGs)',
           'MIR call models listed under call_models_used', 'z3 5.1 nlsat']


def run(ctx):
    ctx.level = 'proof'
    ctx.trusted_base = TRUSTED
    ctx.assumptions += ['the critical value is abstracted by a real variable c: (a) the one-sided bound at L and the two-sided bound at 2L-1 are the same function of c, and the oracle is applied to q_one(L) = L resp. q_two(2L-1) = L; (b) bounds are monotone in c; (c) c >= 0 puts the point estimate inside',
                        'quantile producer: ranks are floor(p*n) capped at n-1 of the Wilson bounds p, monotone in p; the Wilson facts are lifted through this monotone map',
                        'K: result kind == confidence kind on the compiled code for all seven producers (harnesses shared with C11/C04/C05/C02/C03)']
    core.run_kani_set(ctx, ['c06_wilson_quantile_per_call', 'c06_critical_value_is_history_independent', 'c06_interval_bounds', 'c11_harmonic_ci_mean_glue', 'c11_geometric_ci_mean_glue', 'c11_paired_ci_mean_delegates'], bound='arbitrary states', harness_timeout=900)
    m = E.MEngine(ctx)
    if not m.ok:
        return
    try:
        quantile_fn(ctx, m)
        means(ctx, m)
        proportions(ctx, m)
        ranks(ctx, m)
    except mir.Stuck as e:
        m.stuck('C10:M', 'unsupported construct: %s' % e)
    m.finish()


def quantile_fn(ctx, m):
    fq = m.fn('quantile', 'Confidence')
    ref, extra = E.self_ref(E.confidence())
    one = T.fconst(1)
    two = T.fconst(2)
    L2 = T.var('L2')
    for r in m.run(fq, [ref], extra):
        if r.kind != 'return':
            m.stuck('C10:quantile', str(r.value)[:60])
            continue
        k = E.pc_kind(r.pc)
        q = r.value[1]
        q2 = rename(q, {'L': L2})
        m.submit('C10:quantile:increasing:' + KNAME[k], r.pc + LEVEL_OK + [T.mk('flt', L, L2), T.mk('flt', L2, one)], T.mk('flt', q, q2), key='C10:quantile:increasing', note='Confidence::quantile strictly increasing in the level')
        if k == 0:
            m.submit('C10:quantile:two-sided-at-2L-1', r.pc + [T.mk('flt', T.fconst(Fraction(1, 2)), L), T.mk('flt', L, one)],
                     T.mk('feq', rename(q, {'L': T.mk('fsub', T.mk('fmul', two, L), one)}), L), key='C10:quantile:2L-1', note='q_two(2L-1) = L = q_one(L)')
            m.submit('C10:quantile:two-sided-at-least-half', r.pc + LEVEL_OK, T.mk('fge', q, T.fconst(Fraction(1, 2))), key='C10:quantile:half')


def family_c(ctx, m, name, by, base, point, extra_wit=()):
    """by: {(kind, t): (pc, variant, bounds)} with one oracle application per bound; obligations over the abstracted critical value C."""
    C, C2 = T.var('C'), T.var('C2')
    for t in (True, False):
        if not all((k, t) in by for k in (0, 1, 2)):
            m.stuck('C10:%s:coverage' % name, 'missing Ok paths (%s)' % ('T' if t else 'Z'))
            continue
        tz = 'T' if t else 'Z'
        (pc0, v0, b0), (pcu, vu, bu), (pcl, vl, bl) = by[(0, t)], by[(1, t)], by[(2, t)]
        # (d) kinds
        if (v0, vu, vl) != ('TwoSided', 'UpperOneSided', 'LowerOneSided'):
            m.violated_structurally('C10:%s:kind:%s' % (name, tz), 'C10:%s:kind' % name, 'result kinds %s' % ((v0, vu, vl),))
            continue
        ctx.record('C10:%s:kind:%s' % (name, tz), 'M', 'held', bound='structural', sample={'obligation': '%s: result kind == confidence kind on every Ok path' % name})
        a0 = [abs_c(x) for x in b0]
        au, al = abs_c(bu[0]), abs_c(bl[0])
        # (a) same function of the critical value
        if au == a0[0] and al == a0[1]:
            ctx.record('C10:%s:one-sided-is-two-sided-bound:%s' % (name, tz), 'M', 'held', bound='syntactic (same DAG modulo the oracle argument)',
                       sample={'obligation': '%s: one-sided bound and two-sided bound are the same function of the critical value' % name})
        else:
            hy = [abs_c(c) for c in nokind(pc0) + nokind(pcu) + nokind(pcl)] + base + list(extra_wit)
            m.submit('C10:%s:one-sided-is-two-sided-bound:%s' % (name, tz), hy, T.and_(T.mk('feq', au, a0[0]), T.mk('feq', al, a0[1])), key='C10:%s:one-sided-vs-two-sided' % name, timeout=120)
        # oracle arguments other than the quantile do not depend on the kind
        apps0 = [a for x in b0 for a in apps_in(x)]
        appsu = [a for a in apps_in(bu[0])]
        if apps0 and appsu and len(apps0[0]) > 3 and apps0[0][3] != appsu[0][3]:
            m.submit('C10:%s:dof-independent-of-kind:%s' % (name, tz), nokind(pc0) + nokind(pcu) + base, T.mk('feq', apps0[0][3], appsu[0][3]), key='C10:%s:dof' % name, timeout=120)
        # (b) monotone in the critical value
        hy = [abs_c(c) for c in pc0] + base + list(extra_wit) + [T.mk('fle', C, C2)]
        r2 = lambda x: rename(x, {'C': C2})
        m.submit('C10:%s:nested-in-level:%s' % (name, tz), hy, T.and_(T.mk('fle', r2(a0[0]), a0[0]), T.mk('fle', a0[1], r2(a0[1]))), key='C10:%s:nested' % name, timeout=120, note='c <= c\' => CI(c) inside CI(c\')')
        # (c) point estimate inside for c >= 0
        hy = [abs_c(c) for c in pc0] + base + list(extra_wit) + [T.mk('fge', C, T.fconst(0))]
        m.submit('C10:%s:contains-point-estimate:%s' % (name, tz), hy, T.and_(T.mk('fle', a0[0], point), T.mk('fle', point, a0[1])), key='C10:%s:point-estimate' % name, timeout=120)


def means(ctx, m):
    from props.c01 import spec_terms
    S, Q, n, mean, var = spec_terms()
    by, _ = arith_ci_paths(m)
    base = [T.mk('ige', T.var('n', 'i'), T.iconst(2)), T.mk('fge', var, T.fconst(0))] + LEVEL_OK
    family_c(ctx, m, 'arithmetic', by, base, mean)
    # unpaired
    res = c04.unpaired_paths(m)
    byu = {}
    for r in res:
        if r.kind == 'stuck':
            raise mir.Stuck(r.value[1])
        if r.kind == 'return' and E.is_ok(r.value):
            variant, bounds = E.interval_parts(r.value)
            k = E.pc_kind(r.pc)
            t = bool(any(apps_in(b, 'Tq') for b in bounds))
            byu.setdefault((k, t), (r.pc, variant, bounds))
    Sa, Qa, na, ma, va = spec_terms('a')
    Sb, Qb, nb, mb, vb = spec_terms('b')
    baseu = [T.mk('ige', T.var('na', 'i'), T.iconst(2)), T.mk('ige', T.var('nb', 'i'), T.iconst(2)), T.mk('fge', va, T.fconst(0)), T.mk('fge', vb, T.fconst(0))] + LEVEL_OK
    family_c(ctx, m, 'unpaired', byu, baseu, T.mk('fsub', ma, mb))
    # paired / geometric / harmonic reduce to arithmetic by term identity (C04 / C05): record the reduction as checked there
    geo, _ = c05.wrapper_paths(m, 'Geometric', E.arith())
    har, _ = c05.wrapper_paths(m, 'Harmonic', E.arith())
    for nm, w in (('geometric', geo), ('harmonic', har)):
        kinds_ok = all(all(g[1] == VARIANT[k] for g in w.get((k, t), [])) and w.get((k, t)) for k in (0, 1, 2) for t in (True, False))
        if kinds_ok:
            ctx.record('C10:%s:kind' % nm, 'M', 'held', bound='structural', sample={'obligation': '%s: result kind == confidence kind on every Ok path' % nm})
        else:
            m.violated_structurally('C10:%s:kind' % nm, 'C10:%s:kind' % nm, 'a %s Ok path returns an interval of the wrong kind (or a kind has no Ok path)' % nm)
    # the reported point estimate of the wrappers is the back-transform of the SAME arithmetic-mean term the interval is built around
    # (term identity): a degenerate interval (constant sample) then contains it bit for bit, which real arithmetic cannot see
    fam = m.fn('sample_mean', 'Arithmetic', 'inherent')
    ref, extra = E.self_ref(E.arith())
    am = [r for r in m.run(fam, [ref], extra) if r.kind == 'return']
    for ty, back in (('Geometric', lambda t: T.mk('exp', t)), ('Harmonic', lambda t: T.mk('fdiv', T.fconst(1), t))):
        f = m.fn('sample_mean', ty, 'inherent')
        ref, extra = E.self_ref(('adt', ty, 0, [E.arith()]))
        r = [x for x in m.run(f, [ref], extra) if x.kind == 'return']
        name = 'C10:point-estimate:%s' % ty.lower()
        if len(r) == 1 and len(am) == 1 and r[0].value == ('f', back(am[0].value[1])):
            ctx.record(name, 'M', 'held', bound='syntactic', sample={'obligation': '%s::sample_mean is the back-transform of the arithmetic mean term the interval is centred on' % ty, 'verdict': 'same terms'})
        else:
            m.violated_structurally(name, 'C10:point-estimate', '%s::sample_mean is not computed from the same arithmetic-mean term as the interval: a degenerate interval need not contain it' % ty)
    m.collect()


def proportions(ctx, m):
    c17.GUARD[:] = [ctx, 'C10']
    for fname, tag, lo_dom in (('ci_wilson', 'wilson', 2), ('ci_z_normal', 'wald', 10)):
        ex = c17.extract(m, fname)
        if set(ex) != {0, 1, 2}:
            m.stuck('C10:%s' % tag, 'Ok paths for kinds %s only' % sorted(ex))
            continue
        pc0, lo, hi = ex[0]
        pcu, lou, hiu = ex[1]
        pcl, lol, hil = ex[2]
        one, zero = T.fconst(1), T.fconst(0)
        dom = [T.mk('fge', k_f, T.fconst(lo_dom)), T.mk('fge', T.mk('fsub', n_f, k_f), T.fconst(lo_dom))]
        if lou == lo and hil == hi and hiu == one and lol == zero:
            ctx.record('C10:%s:one-sided-is-two-sided-bound' % tag, 'M', 'held', bound='syntactic', sample={'obligation': '%s: one-sided bounds are the two-sided bound functions of z; far ends 1 and 0' % tag})
        else:
            m.submit('C10:%s:one-sided-is-two-sided-bound' % tag, nokind(pc0) + nokind(pcu) + nokind(pcl) + dom, T.and_(T.mk('feq', lou, lo), T.mk('feq', hil, hi), T.mk('feq', hiu, one), T.mk('feq', lol, zero)), key='C10:%s:one-sided-vs-two-sided' % tag, timeout=120)
        # one-sided bounds monotone in z over ALL reals (levels below 1/2 have z < 0): decided on z >= 0 and carried to z <= 0 by the
        # odd symmetry lower(-z) = upper(z) (so "lower end decreasing on z <= 0" is "upper end increasing on z >= 0")
        Z2 = T.var('Z2')
        r2 = lambda x: rename(x, {'Z': Z2})
        neg = lambda x: rename(x, {'Z': T.mk('fneg', Z)})
        zr = [T.mk('fle', zero, Z), T.mk('flt', Z, Z2)] + ([T.mk('fle', Z2, T.fconst(4))] if tag == 'wald' else [])
        m.submit('C10:%s:odd-symmetry-in-z' % tag, nokind(pcu) + nokind(pcl) + dom, T.and_(T.mk('feq', neg(lou), hil), T.mk('feq', neg(hil), lou)), key='C10:%s:odd-symmetry' % tag, timeout=120, note='lower(-z) = upper(z): no absolute value on the span')
        # monotone in z on z > 0: same formulation as C17 (both ends at once, on the two-sided path whose bound terms are the
        # one-sided ones - identical DAGs, checked above); at z = 0 both ends are k/n, which every interval with z >= 0 contains
        zr = [T.mk('flt', zero, Z), T.mk('flt', Z, Z2)] + ([T.mk('fle', Z2, T.fconst(4))] if tag == 'wald' else [])
        exa = c17.extract_all(m, fname)
        multi = any(len(v) > 1 for v in exa.values())
        for i, (pci, loi, hii) in enumerate(exa[0]):
            for j, (pcj, loj, hij) in enumerate(exa[0]):
                # the interval at the lower level may come from one path and the one at the higher level from another (piecewise producers)
                m.submit('C10:%s:nested-in-level%s' % (tag, '' if not multi else ':paths%d-%d' % (i, j)), pci + [r2(c) for c in pcj] + dom + zr, T.and_(T.mk('fle', r2(loj), loi), T.mk('fle', hii, r2(hij))),
                         key='C10:%s:nested' % tag, timeout=240, note="0 < z < z' => CI(z) inside CI(z'), both ends", vacuity=(i == j))
        for kind in (1, 2):
            for i, (pck, lok, hik) in enumerate(exa[kind][1:], 1):
                # additional one-sided paths must return the same functions of z as the first one (which was compared with the two-sided path)
                m.submit('C10:%s:one-sided-path%d-same-bounds:%s' % (tag, i, KNAME[kind]), nokind(pck) + nokind(ex[kind][0]) + dom, T.and_(T.mk('feq', lok, ex[kind][1]), T.mk('feq', hik, ex[kind][2])),
                         key='C10:%s:one-sided-vs-two-sided' % tag, timeout=120, vacuity=False)
        phat = T.mk('fdiv', k_f, n_f)
        m.submit('C10:%s:contains-point-estimate' % tag, pc0 + dom + [T.mk('fge', Z, zero)], T.and_(T.mk('fle', lo, phat), T.mk('fle', phat, hi)), key='C10:%s:point-estimate' % tag, timeout=120)
    m.collect()


def ranks(ctx, m):
    """quantile::Stats::index is monotone in its argument (floor(p*n) capped at n-1), so the Wilson nesting / bracketing lifts to ranks."""
    f = m.fn('index', 'Stats', 'inherent') if False else None
    cands = [g for g in m.fns if g.short == 'index' and 'quantile' in g.name]
    if len(cands) != 1:
        m.stuck('C10:quantile:index', 'cannot identify quantile::Stats::index')
        return
    st = ('adt', 'Stats', 0, [E.iv('n')])
    out = {}
    for nm in ('p', 'p2'):
        ref, extra = E.self_ref(st)
        rs = [r for r in m.run(cands[0], [ref, E.fv(nm)], extra)]
        out[nm] = rs
    oks = lambda rs: [r for r in rs if r.kind == 'return' and E.is_ok(r.value)]
    a, b = oks(out['p']), oks(out['p2'])
    if len(a) != 1 or len(b) != 1:
        m.stuck('C10:quantile:index', 'expected one Ok path, got %d' % len(a))
        return
    # abstract the products p*n by fresh reals u <= v (n >= 0 makes the product monotone)
    U, V = T.var('U'), T.var('V')
    prod = lambda nm: T.mk('fmul', T.var(nm), T.mk('i2f', T.var('n', 'i')))
    ia = T.substitute(a[0].value[3][0][1], {prod('p'): U})
    ib = T.substitute(b[0].value[3][0][1], {prod('p2'): V})
    if T.contains(ia, lambda t: t == T.var('p')) or T.contains(ib, lambda t: t == T.var('p2')):
        m.stuck('C10:quantile:index', 'index is not a function of p*n: %s' % T.show(a[0].value[3][0][1])[:100])
        return
    hy = [T.mk('ige', T.var('n', 'i'), T.iconst(1)), T.mk('fle', T.fconst(0), U), T.mk('fle', U, V)]
    m.submit('C10:quantile:index-monotone', hy, T.mk('ile', ia, ib), sem=('R', 'int'), key='C10:quantile:index-monotone', timeout=60, note='p*n <= p\'*n => index(p) <= index(p\') (floor and cap are monotone)')
    m.collect()
