"""C07 — interval predicates are the set relations of the denoted closed sets (engine K, full width)."""
from vlib import core


def run(ctx):
    ctx.level = 'model_checking'
    ctx.functions += ['Interval::contains', 'Interval::intersects', 'Interval::includes', 'Interval::is_included_in',
                      '<Interval<T> as RangeBounds<T>>::{start_bound,end_bound}', 'Interval::{left,right}']
    ctx.assumptions += [
        'instantiations decided: Interval<i8> (every value of i8, all 3x3 kind pairs, every probe: a 256-element chain realises every relative order of four bounds and a probe) and Interval<f64> compare-only (NaN excluded; +-0 and +-inf probes; pair relations with finite stored bounds)',
        'two-sided inputs are constructed with low <= high (the representation invariant of Interval::new)',
        'oracle: set semantics with sentinels -1000/+1000 outside the i8 range (resp. -inf/+inf); cross-checked pointwise by c07_includes_pointwise_i8',
        'no unwinding or value-range bound: CBMC decides every value of the instantiated types',
        'other element types (strings, user types) are outside the decided instantiations; the code is generic over PartialOrd and uses only <=, >=',
    ]
    core.run_kani_set(ctx, ['c07_'], bound='all i8 / all non-NaN f64, no unwind bound', harness_timeout=300)
    if ctx.tier == 'thorough':
        # thorough tier: the same harnesses decided a second time by an independent SAT solver (kissat instead of CaDiCaL)
        core.run_kani_set(ctx, ['c07_'], bound='all i8 / all non-NaN f64, no unwind bound', harness_timeout=900, solver='kissat')
