use std::io::Read;
fn main() {
    let mut s = String::new();
    std::io::stdin().read_to_string(&mut s).unwrap();
    print!("{}", stats_ci::verif_replay::run(&s));
}
