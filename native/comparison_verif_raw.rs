// cfg(verif_replay) child module of `comparison`
use super::*;
pub fn raw_paired<T: Float>(a: mean::Arithmetic<T>) -> Paired<T> {
    Paired { stats: a }
}
pub fn raw_unpaired<T: Float>(a: mean::Arithmetic<T>, b: mean::Arithmetic<T>) -> Unpaired<T> {
    Unpaired { stats_a: a, stats_b: b }
}
