// cfg(verif_replay) child module of `mean`: raw constructors (private fields)
use super::*;
use crate::utils::verif_raw::*;
pub fn raw_arith<F: Float>(s: F, c: F, q: F, qc: F, n: usize) -> Arithmetic<F> {
    Arithmetic { sum: raw_kahan(s, c), sum_sq: raw_kahan(q, qc), count: n }
}
pub fn raw_harmonic<F: Float>(a: Arithmetic<F>) -> Harmonic<F> {
    Harmonic { recip_space: a }
}
pub fn raw_geometric<F: Float>(a: Arithmetic<F>) -> Geometric<F> {
    Geometric { log_space: a }
}
pub fn arith_parts<F: Float>(a: &Arithmetic<F>) -> (F, F, F, F, usize) {
    let (s, c) = kahan_parts(&a.sum);
    let (q, qc) = kahan_parts(&a.sum_sq);
    (s, c, q, qc, a.count)
}
