// cfg(verif_replay) child module of `utils`
use super::*;
pub fn raw_kahan<T: Float>(sum: T, compensation: T) -> KahanSum<T> {
    KahanSum { sum, compensation }
}
pub fn kahan_parts<T: Float>(k: &KahanSum<T>) -> (T, T) {
    (k.sum, k.compensation)
}
