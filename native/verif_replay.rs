// Native replay driver (cfg(verif_replay) only; installed into the scratch copy, never into /repo).
// Reads one command per line, runs the REAL crate code on concrete inputs and prints the outcome with floats as bit
// patterns. Used to confirm solver counterexamples before anything is reported, and for translator validation.
use crate::comparison::verif_raw::*;
use crate::mean::verif_raw::*;
use crate::*;
use statrs::distribution::{ContinuousCDF, Normal, StudentsT};

fn f(tok: &str) -> f64 {
    if let Some(h) = tok.strip_prefix("0x") {
        f64::from_bits(u64::from_str_radix(h, 16).unwrap())
    } else {
        tok.parse::<f64>().unwrap()
    }
}
fn u(tok: &str) -> usize {
    tok.parse::<usize>().unwrap()
}
fn conf(kind: &str, level: &str) -> Confidence {
    let l = f(level);
    match kind {
        "0" | "two" => Confidence::TwoSided(l),
        "1" | "upper" => Confidence::UpperOneSided(l),
        _ => Confidence::LowerOneSided(l),
    }
}
fn hx(x: f64) -> String {
    format!("0x{:016x}", x.to_bits())
}
fn show64(r: CIResult<Interval<f64>>) -> String {
    match r {
        Ok(Interval::TwoSided(a, b)) => format!("ok two {} {}", hx(a), hx(b)),
        Ok(Interval::UpperOneSided(a)) => format!("ok upper {}", hx(a)),
        Ok(Interval::LowerOneSided(b)) => format!("ok lower {}", hx(b)),
        Err(e) => format!("err {}", variant(&e)),
    }
}
fn show32(r: CIResult<Interval<f32>>) -> String {
    show64(r.map(|i| match i {
        Interval::TwoSided(a, b) => Interval::TwoSided(a as f64, b as f64),
        Interval::UpperOneSided(a) => Interval::UpperOneSided(a as f64),
        Interval::LowerOneSided(b) => Interval::LowerOneSided(b as f64),
    }))
}
fn showu(r: CIResult<Interval<usize>>) -> String {
    match r {
        Ok(Interval::TwoSided(a, b)) => format!("ok two {} {}", a, b),
        Ok(Interval::UpperOneSided(a)) => format!("ok upper {}", a),
        Ok(Interval::LowerOneSided(b)) => format!("ok lower {}", b),
        Err(e) => format!("err {}", variant(&e)),
    }
}
fn variant(e: &error::CIError) -> String {
    let s = format!("{:?}", e);
    s.split(|c| c == '(' || c == ' ').next().unwrap_or("").to_string()
}
fn arith64(t: &[&str]) -> mean::Arithmetic<f64> {
    raw_arith(f(t[0]), f(t[1]), f(t[2]), f(t[3]), u(t[4]))
}
fn arith32(t: &[&str]) -> mean::Arithmetic<f32> {
    raw_arith(f(t[0]) as f32, f(t[1]) as f32, f(t[2]) as f32, f(t[3]) as f32, u(t[4]))
}

fn exec(line: &str) -> String {
    let t: Vec<&str> = line.split_whitespace().collect();
    if t.is_empty() {
        return String::new();
    }
    let is32 = t.len() > 1 && t[1] == "f32";
    match t[0] {
        "arith_ci_mean" => {
            if is32 { show32(arith32(&t[2..]).ci_mean(conf(t[7], t[8]))) } else { show64(arith64(&t[2..]).ci_mean(conf(t[7], t[8]))) }
        }
        "arith_stats" => {
            let a = arith64(&t[2..]);
            format!("{} {} {} {}", hx(a.sample_mean()), hx(a.sample_variance()), hx(a.sample_std_dev()), hx(a.sample_sem()))
        }
        "harmonic_ci_mean" => show64(raw_harmonic(arith64(&t[2..])).ci_mean(conf(t[7], t[8]))),
        "geometric_ci_mean" => show64(raw_geometric(arith64(&t[2..])).ci_mean(conf(t[7], t[8]))),
        "harmonic_stats" => { let h = raw_harmonic(arith64(&t[2..])); format!("{} {}", hx(h.sample_mean()), hx(h.sample_sem())) }
        "geometric_stats" => { let g = raw_geometric(arith64(&t[2..])); format!("{} {}", hx(g.sample_mean()), hx(g.sample_sem())) }
        "arith_ci" | "harmonic_ci" | "geometric_ci" => {
            let c = conf(t[2], t[3]);
            if is32 {
                let d: Vec<f32> = t[4..].iter().map(|x| f(x) as f32).collect();
                match t[0] { "arith_ci" => show32(mean::Arithmetic::<f32>::ci(c, &d)), "harmonic_ci" => show32(mean::Harmonic::<f32>::ci(c, &d)), _ => show32(mean::Geometric::<f32>::ci(c, &d)) }
            } else {
                let d: Vec<f64> = t[4..].iter().map(|x| f(x)).collect();
                match t[0] { "arith_ci" => show64(mean::Arithmetic::<f64>::ci(c, &d)), "harmonic_ci" => show64(mean::Harmonic::<f64>::ci(c, &d)), _ => show64(mean::Geometric::<f64>::ci(c, &d)) }
            }
        }
        "arith_ci_inc" => {
            // incremental route: append one by one through the trait, then ci_mean
            let c = conf(t[2], t[3]);
            if is32 {
                let mut a = mean::Arithmetic::<f32>::new();
                for x in &t[4..] { let _ = StatisticsOps::append(&mut a, f(x) as f32); }
                show32(a.ci_mean(c))
            } else {
                let mut a = mean::Arithmetic::<f64>::new();
                for x in &t[4..] { let _ = StatisticsOps::append(&mut a, f(x)); }
                show64(a.ci_mean(c))
            }
        }
        "arith_state" => {
            // state after appending the data one by one: sum comp sum_sq comp_sq count
            let mut a = mean::Arithmetic::<f64>::new();
            for x in &t[2..] { let _ = StatisticsOps::append(&mut a, f(x)); }
            let (s, c, q, qc, n) = arith_parts(&a);
            format!("{} {} {} {} {}", hx(s), hx(c), hx(q), hx(qc), n)
        }
        "paired_ci" => {
            let c = conf(t[2], t[3]);
            let v: Vec<f64> = t[4..].iter().map(|x| f(x)).collect();
            let a: Vec<f64> = v.iter().step_by(2).cloned().collect();
            let b: Vec<f64> = v.iter().skip(1).step_by(2).cloned().collect();
            show64(comparison::Paired::<f64>::ci(c, &a, &b))
        }
        "unpaired_ci_mean" => {
            let a = arith64(&t[2..7]);
            let b = arith64(&t[7..12]);
            show64(raw_unpaired(a, b).ci_mean(conf(t[12], t[13])))
        }
        "unpaired_ci" => {
            let c = conf(t[2], t[3]);
            let na = u(t[4]);
            let a: Vec<f64> = t[5..5 + na].iter().map(|x| f(x)).collect();
            let b: Vec<f64> = t[5 + na..].iter().map(|x| f(x)).collect();
            show64(comparison::Unpaired::<f64>::ci(c, &a, &b))
        }
        "wilson" => show64(proportion::ci_wilson(conf(t[3], t[4]), u(t[1]), u(t[2]))),
        "z_normal" => show64(proportion::ci_z_normal(conf(t[3], t[4]), u(t[1]), u(t[2]))),
        "prop_ci" => show64(proportion::ci(conf(t[3], t[4]), u(t[1]), u(t[2]))),
        "wilson_ratio" => show64(proportion::ci_wilson_ratio(conf(t[3], t[4]), u(t[1]), f(t[2]))),
        "relative_to" => {
            let mk = |k: &str, lo: &str, hi: &str| match k { "0" => Interval::TwoSided(f(lo), f(hi)), "1" => Interval::UpperOneSided(f(lo)), _ => Interval::LowerOneSided(f(hi)) };
            let r = mk(t[1], t[2], t[3]).relative_to(&mk(t[4], t[5], t[6]));
            show64(Ok(r))
        }
        "tq" => hx(StudentsT::new(0., 1., f(t[2])).map(|d| d.inverse_cdf(f(t[1]))).unwrap_or(f64::NAN)),
        "zq" => hx(Normal::new(0., 1.).unwrap().inverse_cdf(f(t[1]))),
        "qstats_ci" => showu(quantile::Stats::new(u(t[1])).ci(conf(t[3], t[4]), f(t[2]))),
        "qindices" => showu(quantile::ci_indices(conf(t[3], t[4]), u(t[1]), f(t[2]))),
        "point_in_ci" => {
            // point_in_ci <arith|harmonic|geometric> <kind> <level> data...: the interval through the one-shot entry point and the point estimate
            // of the state built from the same data
            let c = conf(t[2], t[3]);
            let d: Vec<f64> = t[4..].iter().map(|x| f(x)).collect();
            let (r, m) = match t[1] {
                "harmonic" => (mean::Harmonic::<f64>::ci(c, &d), mean::Harmonic::<f64>::from_iter(&d).map(|s| s.sample_mean())),
                "geometric" => (mean::Geometric::<f64>::ci(c, &d), mean::Geometric::<f64>::from_iter(&d).map(|s| s.sample_mean())),
                _ => (mean::Arithmetic::<f64>::ci(c, &d), mean::Arithmetic::<f64>::from_iter(&d).map(|s| s.sample_mean())),
            };
            format!("{} mean {}", show64(r), m.map(hx).unwrap_or_else(|e| variant(&e)))
        }
        "qdata" => {
            // qdata <ci|ci_max|ci_sorted> <n> <a> <q> <kind> <level>: data[i] = (i*a + 1) mod n (a permutation of 0..n when gcd(a,n)=1),
            // so every value equals its own rank and the reported bounds must be the ranks of ci_indices
            let (n, a) = (u(t[2]), u(t[3]));
            let data: Vec<f64> = (0..n).map(|i| ((i * a + 1) % n) as f64).collect();
            let c = conf(t[5], t[6]);
            match t[1] {
                "ci" => show64(quantile::ci(c, &data, f(t[4]))),
                "ci_max" => show64(quantile::ci_max_size::<f64, _, 8192>(c, &data, f(t[4]))),
                _ => { let mut d = data.clone(); d.sort_by(|x, y| x.partial_cmp(y).unwrap()); show64(quantile::ci_sorted_unchecked(c, &d, f(t[4]))) }
            }
        }
        "qindex" => match quantile::Stats::new(u(t[1])).index(f(t[2])) { Ok(i) => format!("ok {}", i), Err(e) => format!("err {}", variant(&e)) },
        "kahan" => {
            if is32 {
                let mut k = utils::KahanSum::<f32>::default();
                for x in &t[2..] { k += f(x) as f32; }
                hx(k.value() as f64)
            } else {
                let mut k = utils::KahanSum::<f64>::default();
                for x in &t[2..] { k += f(x); }
                hx(k.value())
            }
        }
        "kahan_merge" => {
            // kahan_merge f32 <split> x1 .. : sum x[..split] and x[split..] in two registers, merge with +=
            let split = u(t[2]);
            let xs: Vec<f64> = t[3..].iter().map(|x| f(x)).collect();
            if is32 {
                let (mut a, mut b) = (utils::KahanSum::<f32>::default(), utils::KahanSum::<f32>::default());
                for (i, x) in xs.iter().enumerate() { if i < split { a += *x as f32 } else { b += *x as f32 } }
                a += b;
                hx(a.value() as f64)
            } else {
                let (mut a, mut b) = (utils::KahanSum::<f64>::default(), utils::KahanSum::<f64>::default());
                for (i, x) in xs.iter().enumerate() { if i < split { a += *x } else { b += *x } }
                a += b;
                hx(a.value())
            }
        }
        "kahan_rep" => {
            // kahan_rep <ty> <mode> <x0> <x> <count>: x0 then `count` copies of x; modes addassign | plus | merge7
            let (x0, x, cnt) = (f(t[3]), f(t[4]), u(t[5]));
            macro_rules! go { ($ty:ty) => {{
                let (x0, x) = (x0 as $ty, x as $ty);
                let mut k = utils::KahanSum::<$ty>::default();
                k += x0;
                match t[2] {
                    "plus" => { for _ in 0..cnt { k = k + x; } }
                    "merge7" => {
                        let mut i = 0;
                        while i < cnt {
                            let mut part = utils::KahanSum::<$ty>::default();
                            let m = core::cmp::min(7, cnt - i);
                            for _ in 0..m { part += x; }
                            k += part;
                            i += m;
                        }
                    }
                    "rmerge3" => {
                        // the running total is the RIGHT operand of every merge: t = chunk; t += total; total = t
                        let mut i = 0;
                        while i < cnt {
                            let mut part = utils::KahanSum::<$ty>::default();
                            let m = core::cmp::min(3, cnt - i);
                            for _ in 0..m { part += x; }
                            part += k;
                            k = part;
                            i += m;
                        }
                    }
                    _ => { for _ in 0..cnt { k += x; } }
                }
                hx(k.value() as f64)
            }}}
            if is32 { go!(f32) } else { go!(f64) }
        }
        "kahan_plus" => {
            // fold with the by-value `+` operator
            let mut k = utils::KahanSum::<f32>::default();
            for x in &t[2..] { k = k + (f(x) as f32); }
            hx(k.value() as f64)
        }
        _ => format!("unknown-command {}", t[0]),
    }
}

pub fn run(input: &str) -> String {
    std::panic::set_hook(Box::new(|_| {}));
    let mut out = String::new();
    for line in input.lines() {
        let l = line.to_string();
        let r = std::panic::catch_unwind(move || exec(&l));
        match r {
            Ok(s) => out.push_str(&s),
            Err(p) => {
                let msg = p.downcast_ref::<&str>().map(|s| s.to_string()).or_else(|| p.downcast_ref::<String>().cloned()).unwrap_or_default();
                out.push_str(&format!("panic {}", msg.replace('\n', " ")));
            }
        }
        out.push('\n');
    }
    out
}
