"""Engine M driver: MIR dump of the scratch copy, symbolic execution of selected functions, obligations -> solver."""
import os, re, time, json, hashlib
from . import mir, models, smt, term as T
from vlib import core


class MEngine:
    def __init__(self, ctx, scratch=None):
        self.ctx = ctx
        dev = os.environ.get('VERIF_DEV_MIR')          # developer shortcut (never used by registered commands): reuse a MIR dump
        if dev:
            class _S:
                dir = os.path.dirname(dev)
            self.sc = _S()
            self.text = open(dev).read()
            self.ok = True
            self.fns = mir.parse_mir(self.text)
            self.src_root = os.path.join(self.sc.dir, 'src')
            mir.learn_variants(self.src_root)
            self.models = models.Models()
            self.pool = smt.Pool()
            self.pending = []
            self.touched = set()
            self._vac = set()
            return
        self.sc = scratch or ctx.scratch(None)
        t = time.time()
        env = dict(core.ENV)
        env['RUSTUP_TOOLCHAIN'] = 'nightly'
        env['CARGO_TARGET_DIR'] = os.path.join(self.sc.dir, 'target-mir')
        rc, out, dt = core.sh(['cargo', 'rustc', '--offline', '--lib', '--', '-Zunpretty=mir', '-C', 'debug-assertions=off', '-C', 'overflow-checks=on'],
                              cwd=self.sc.dir, timeout=900, env=env)
        # stdout carries the MIR, stderr the cargo chatter; sh() merges them, so cut at the first item
        i = out.find('// WARNING: This output format')
        self.text = out[i:] if i >= 0 else out
        self.ok = rc == 0 and 'fn ' in self.text
        if not self.ok:
            ctx.inconclusive.append('MIR dump failed: ' + out[-1500:])
            return
        self.fns = mir.parse_mir(self.text)
        mir.learn_variants(os.path.join(self.sc.dir, 'src'))
        self.src_root = os.path.join(self.sc.dir, 'src')
        self.models = models.Models()
        self.pool = smt.Pool()
        self.pending = []
        self.dump_s = time.time() - t
        ctx.extra['mir_dump_s'] = round(self.dump_s, 1)
        ctx.extra['mir_items'] = len(self.fns)
        ctx.checker_cmds.append('cargo +nightly rustc --lib -- -Zunpretty=mir -C overflow-checks=on | mirsmt | z3-new (one process per obligation)')
        self.touched = set()
        self._vac = set()

    # ---- selecting functions
    def fn(self, meth, self_type=None, kind=None):
        cands = [f for f in self.fns if f.short == meth]
        m = mir.Machine(self.fns, self.src_root, self.models)
        if self_type is not None:
            cands = [f for f in cands if m.impl_self_type(f) == self_type]
        else:
            cands = [f for f in cands if '<impl at' not in f.name] or cands
        if kind is not None:
            cands = [f for f in cands if m.impl_kind(f) == kind]
        elif len(cands) > 1:
            c2 = [f for f in cands if m.impl_kind(f) in ('inherent', None)]
            cands = c2 or cands
        if len(cands) != 1:
            raise mir.Stuck('function %s::%s: %d candidates in the MIR dump' % (self_type, meth, len(cands)))
        return cands[0]

    def run(self, fn, args, extra_locals=None, max_paths=4000):
        m = mir.Machine(self.fns, self.src_root, self.models, max_paths=max_paths)
        res = m.run(fn, args, extra_locals=extra_locals)
        self.last_machine = m
        self.touched |= m.touched
        for f in m.touched:
            self.ctx.functions.append(f)
        return res

    def fn_hash(self, fn):
        txt = '\n'.join('%s:%s' % (b, '\n'.join(l)) for b, l in sorted(fn.blocks.items()))
        return hashlib.sha256(txt.encode()).hexdigest()[:12]

    # ---- obligations
    def query_text(self, hyps, goal_neg, sem=('R', 'real'), axioms=(), raw_asserts=(), get_model=True, decl_extra=()):
        em = smt.Emitter(sem)
        asserts = [em.emit(h) for h in hyps]
        if goal_neg is not None:
            asserts.append(em.emit(goal_neg))
        ax = []
        for a in axioms:
            ax.append(a(em) if callable(a) else (em.emit(a) if isinstance(a, tuple) else a))
        text = em.script(asserts, extra_decls=decl_extra, extra_asserts=list(ax) + list(raw_asserts), get_model=get_model)
        return text

    def submit(self, name, hyps, goal, sem=('R', 'real'), axioms=(), raw_asserts=(), timeout=60, expect='unsat', key=None, note='', on_sat=None,
               solver='z3-new', decl_extra=(), vacuity=True):
        """Obligation: hyps |= goal, discharged when `hyps and not goal` is unsat (expect='unsat').
        expect='sat' is used for vacuity / reachability witnesses (goal=None: are the hyps satisfiable?)."""
        try:
            goal_neg = None if goal is None else T.not_(goal)
            text = self.query_text(hyps, goal_neg, sem, axioms, raw_asserts, decl_extra=decl_extra)
        except (ValueError, mir.Stuck) as e:
            self.ctx.record(name, 'M', 'inconclusive', key=key, detail='emit: %s' % e)
            self.ctx.inconclusive.append('%s: cannot emit (%s)' % (name, e))
            return
        if on_sat is None:
            on_sat = default_replay(self.ctx, key or name)
        # vacuity guard: the premises of every universally quantified obligation must be satisfiable
        if vacuity and expect == 'unsat' and goal is not None and goal != T.bconst(False):
            hk = (tuple(hyps), sem, tuple(a for a in raw_asserts))
            if hk not in self._vac:
                self._vac.add(hk)
                try:
                    vt = self.query_text(hyps, None, sem, axioms, raw_asserts, get_model=False, decl_extra=decl_extra)
                    vf = self.pool.submit(vt, solver, min(timeout, 60), self.ctx.seed)
                    self.pending.append({'name': name + ' [premises satisfiable]', 'fut': vf, 'expect': 'sat', 'key': 'vacuity', 'sem': sem, 'note': 'vacuity guard', 'text': vt,
                                         'on_sat': None, 'timeout': timeout, 'solver': solver, 'vac': True})
                except (ValueError, mir.Stuck):
                    pass
        fut = self.pool.submit(text, solver, timeout, self.ctx.seed)
        self.pending.append({'name': name, 'fut': fut, 'expect': expect, 'key': key or name, 'sem': sem, 'note': note, 'text': text, 'on_sat': on_sat,
                             'timeout': timeout, 'solver': solver})

    def stuck(self, name, why, key=None):
        self.ctx.record(name, 'M', 'inconclusive', key=key, detail=why)
        self.ctx.inconclusive.append('%s: %s' % (name, why))

    def violated_structurally(self, name, key, text, replay=None):
        """A violation established without a solver search (e.g. the returned value has the wrong shape on a feasible path)."""
        if replay is None:
            replay = default_replay(self.ctx, key)
        self._candidate({'name': name, 'key': key, 'sem': 'structural', 'note': text, 'text': '', 'on_sat': replay}, '', 0.0, text)

    def _candidate(self, p, out, dt, what):
        ctx = self.ctx
        model = smt.parse_model(out) if out else {}

        def reproduce():
            if p.get('on_sat') is None:
                return False, None, 'no native replay defined for this obligation'
            try:
                return p['on_sat'](model, p)
            except Exception as e:      # replay machinery failure is not a verdict
                return False, None, 'replay raised %r' % (e,)
        verdict = ctx.classify(p['key'], what, reproduce)
        ctx.record(p['name'], 'M', {'violation': 'violated', 'known': 'known-finding', 'inconclusive': 'inconclusive'}[verdict], key=p['key'], time_s=dt,
                   bound=str(p['sem']), detail=what[:300])

    def collect(self):
        ctx = self.ctx
        cross = []
        for p in self.pending:
            verdict, out, dt = p['fut'].result()
            ctx.solver_time += dt
            if ctx.tier == 'thorough' and verdict == 'unsat' and p['expect'] == 'unsat' and not p.get('vac') and p.get('text'):
                # thorough tier: every discharged obligation is put to two other solvers as well (cvc5 1.0, z3 4.8.12); a `sat` from
                # either is treated exactly like a refutation by the primary solver (native replay decides)
                for other in ('cvc5', 'z3'):
                    cross.append((p, other, self.pool.submit(p['text'], other, 45, ctx.seed)))
            if verdict == p['expect'] and p.get('vac'):
                ctx.extra['vacuity_guards_passed'] = ctx.extra.get('vacuity_guards_passed', 0) + 1
            elif verdict == p['expect']:
                ctx.record(p['name'], 'M', 'held', key=p['key'], time_s=dt, bound='semantics %s' % (p['sem'],),
                           sample={'obligation': p['name'], 'semantics': str(p['sem']), 'verdict': verdict, 'time_s': round(dt, 3), 'note': p['note']})
            elif p['expect'] == 'unsat' and verdict == 'sat':
                self._candidate(p, out, dt, 'obligation "%s" refuted by %s (%s)' % (p['name'], p['solver'], p['note']))
            elif p['expect'] == 'sat' and verdict == 'unsat':
                ctx.record(p['name'], 'M', 'inconclusive', key=p['key'], time_s=dt, detail='vacuity: premises unsatisfiable')
                ctx.inconclusive.append('%s: premises unsatisfiable (vacuous obligation)' % p['name'])
            elif p.get('vac'):
                ctx.extra.setdefault('vacuity_guards_undecided', []).append(p['name'])
            else:
                ctx.record(p['name'], 'M', 'inconclusive', key=p['key'], time_s=dt, detail='%s: %s' % (verdict, out[:200]))
                ctx.inconclusive.append('%s: solver answered %s after %.0fs' % (p['name'], verdict, dt))
        self.pending = []
        agree = undecided = 0
        for p, other, fut in cross:
            verdict, out, dt = fut.result()
            ctx.solver_time += dt
            if verdict == 'unsat':
                agree += 1
            elif verdict == 'sat':
                self._candidate(dict(p, name=p['name'] + ' [' + other + ']'), out, dt, 'obligation "%s" discharged by %s but refuted by %s' % (p['name'], p['solver'], other))
            else:
                undecided += 1
        if cross:
            cs = ctx.extra.setdefault('cross_solver', {'second_opinions_unsat': 0, 'second_opinions_undecided': 0, 'solvers': 'cvc5 1.0, z3 4.8.12, 45 s each'})
            cs['second_opinions_unsat'] += agree
            cs['second_opinions_undecided'] += undecided

    def finish(self):
        self.collect()
        ctx = self.ctx
        ctx.extra['call_models_used'] = sorted(self.models.used)
        ctx.extra['mir_functions_executed'] = sorted(self.touched)


# ----------------------------------------------------------------------------------------------- value builders
def fv(name):
    return ('f', T.var(name, 'f'))


def iv(name):
    return ('i', T.var(name, 'i'))


def kahan(s, c):
    return ('adt', 'KahanSum', 0, [fv(s), fv(c)])


def arith(p=''):
    """Arithmetic<F> state with symbolic fields s,sc,q,qc,n (+suffix)."""
    return ('adt', 'Arithmetic', 0, [kahan('s' + p, 'sc' + p), kahan('q' + p, 'qc' + p), iv('n' + p)])


def confidence(kind='kind', level='L'):
    return ('symenum', 'Confidence', T.var(kind, 'i'), [fv(level)])


def conf_const(kind_index, level='L'):
    return ('adt', 'Confidence', kind_index, [fv(level)])


def self_ref(state):
    """argument list helper: (`&self` as a reference to an extra local holding the state)."""
    return ('ref', 0, '_self', ()), {'_self': state}


def is_ok(v):
    return v[0] == 'adt' and v[1] == 'Result' and v[2] == 0


def is_err(v, variant=None):
    if not (v[0] == 'adt' and v[1] == 'Result' and v[2] == 1):
        return False
    if variant is None:
        return True
    e = v[3][0]
    return e[0] == 'adt' and e[1] == 'CIError' and mir.VARIANTS['CIError'][e[2]] == variant


def interval_parts(v):
    """Ok(Interval::X(..)) -> (variant name, [float terms])"""
    iv_ = v[3][0]
    return mir.VARIANTS['Interval'][iv_[2]], [x[1] for x in iv_[3]]


KIND = {'TwoSided': 0, 'UpperOneSided': 1, 'LowerOneSided': 2}


def pc_kind(pc, var='kind'):
    """Which discriminant value of the symbolic confidence a path fixed (None if unconstrained)."""
    for c in pc:
        if c[0] == 'ieq' and c[1] == T.var(var, 'i') and c[2][0] == 'iconst':
            return c[2][1]
    return None


def default_replay(ctx, key):
    """Native confirmation procedure for a refuted obligation, chosen by the obligation's role key."""
    from vlib import native
    k = key
    if re.match(r'C0[24]:paired|C04:paired', k):
        return None
    if re.match(r'C16:arith:negate', k):
        def mirror_first(model, p):
            ok, path, note = native.replay_arith_mirror(ctx, model, p['name'])
            return (ok, path, note) if ok else native.replay_arith(ctx, model, p['name'])
        return mirror_first
    if re.match(r'C10:point-estimate', k):
        return lambda model, p: native.replay_point_estimate(ctx, p['name'])
    if re.match(r'(C01|C06:arith|C10:arithmetic|C10:quantile|C16:arith)', k):
        return lambda model, p: native.replay_arith(ctx, model, p['name'])
    if re.match(r'C16:unpaired:negate', k):
        def both(model, p):
            ok, path, note = native.replay_unpaired_mirror(ctx, model, p['name'])
            return (ok, path, note) if ok else native.replay_unpaired(ctx, model, p['name'])
        return both
    if re.match(r'(C04:unpaired|C04:swap|C10:unpaired|C06:unpaired|C16:unpaired)', k):
        return lambda model, p: native.replay_unpaired(ctx, model, p['name'])
    if re.match(r'C03:rank', k):
        return lambda model, p: native.replay_quantile_ranks(ctx, p['name'])
    if re.match(r'C03:data', k):
        return lambda model, p: native.replay_quantile_data(ctx, p['name'])
    if re.match(r'C13:relative_to', k):
        return lambda model, p: native.replay_relative_to(ctx, model, p['name'])
    if re.match(r'C02:(z_normal|wilson):fp-domain', k):
        return lambda model, p: native.replay_domain(ctx, model, p['name'], 'wald' if 'z_normal' in k else 'wilson')
    if re.match(r'(C02|C17|C10|C06):(wilson)', k):
        return lambda model, p: native.replay_proportion(ctx, model, p['name'], 'wilson')
    if re.match(r'(C02|C17|C10|C06):(z_normal|wald)', k):
        return lambda model, p: native.replay_proportion(ctx, model, p['name'], 'wald')
    if re.match(r'C05:geometric|C10:geometric', k):
        return lambda model, p: native.replay_wrapper(ctx, 'geometric', 0)
    if re.match(r'C05:harmonic|C10:harmonic', k):
        return lambda model, p: native.replay_wrapper(ctx, 'harmonic', 0)
    return None
