"""Hash-consed term DAG shared by the MIR executor and the SMT emitters.

A term is a tuple (op, *args); structural equality == object identity after interning, so "the two computations
build the same expression DAG" is a pointer comparison and needs no solver.
Sorts are implied by the operator: f* float, i* integer, b*/comparisons bool.
"""
from fractions import Fraction

_table = {}


def mk(op, *args):
    key = (op,) + args
    t = _table.get(key)
    if t is None:
        _table[key] = key
        t = key
    return t


def var(name, sort='f'):
    return mk({'f': 'fvar', 'i': 'ivar', 'b': 'bvar'}[sort], name)


def fconst(q):
    return mk('fconst', Fraction(q))


def iconst(n):
    return mk('iconst', int(n))


def bconst(b):
    return mk('bconst', bool(b))


def finf():
    return mk('finf')


def fninf():
    return mk('fninf')


def fnan():
    return mk('fnan')


def is_iconst(t):
    return t[0] == 'iconst'


def ival(t):
    return t[1]


def is_bconst(t):
    return t[0] == 'bconst'


def bval(t):
    return t[1]


def not_(a):
    if a[0] == 'bconst':
        return bconst(not a[1])
    if a[0] == 'not':
        return a[1]
    return mk('not', a)


def and_(*xs):
    out = []
    for x in xs:
        if x[0] == 'bconst':
            if not x[1]:
                return bconst(False)
            continue
        if x[0] == 'and':
            out.extend(x[1:])
        else:
            out.append(x)
    if not out:
        return bconst(True)
    if len(out) == 1:
        return out[0]
    return mk('and', *out)


def or_(*xs):
    out = []
    for x in xs:
        if x[0] == 'bconst':
            if x[1]:
                return bconst(True)
            continue
        if x[0] == 'or':
            out.extend(x[1:])
        else:
            out.append(x)
    if not out:
        return bconst(False)
    if len(out) == 1:
        return out[0]
    return mk('or', *out)


ICMP = {'ilt': lambda a, b: a < b, 'ile': lambda a, b: a <= b, 'igt': lambda a, b: a > b, 'ige': lambda a, b: a >= b,
        'ieq': lambda a, b: a == b, 'ine': lambda a, b: a != b}
IARITH = {'iadd': lambda a, b: a + b, 'isub': lambda a, b: a - b, 'imul': lambda a, b: a * b}


def simplify_int(t):
    if t[0] in IARITH and t[1][0] == 'iconst' and t[2][0] == 'iconst':
        return iconst(IARITH[t[0]](t[1][1], t[2][1]))
    return t


def simplify_bool(t):
    if t[0] in ICMP:
        a, b = simplify_int(t[1]), simplify_int(t[2])
        if a[0] == 'iconst' and b[0] == 'iconst':
            return bconst(ICMP[t[0]](a[1], b[1]))
        return mk(t[0], a, b)
    if t[0] == 'not':
        return not_(simplify_bool(t[1]))
    if t[0] == 'and':
        return and_(*[simplify_bool(x) for x in t[1:]])
    if t[0] == 'or':
        return or_(*[simplify_bool(x) for x in t[1:]])
    return t


def contradicts(pc, c):
    """Cheap syntactic infeasibility test used to prune forks (soundness does not depend on it: unpruned infeasible
    paths are discarded by the solver later)."""
    if c[0] == 'bconst':
        return not c[1]
    neg = not_(c)
    for p in pc:
        if p is neg or p == neg:
            return True
        # discriminant-style equalities: (= v k1) vs (= v k2)
        if p[0] == 'ieq' and c[0] == 'ieq' and p[1] == c[1] and p[2][0] == 'iconst' and c[2][0] == 'iconst' and p[2][1] != c[2][1]:
            return True
    if c[0] == 'and':
        return any(contradicts(pc, x) for x in c[1:])
    # integer interval reasoning over atoms cmp(var, const) / cmp(const, var)
    rng = {}
    for a in list(pc) + [c]:
        at = _int_atom(a)
        if at is None:
            continue
        v, lo, hi = at
        l0, h0 = rng.get(v, (None, None))
        if lo is not None:
            l0 = lo if l0 is None else max(l0, lo)
        if hi is not None:
            h0 = hi if h0 is None else min(h0, hi)
        rng[v] = (l0, h0)
        if l0 is not None and h0 is not None and l0 > h0:
            return True
    return False


def _int_atom(a):
    """(var term, lo, hi) for atoms like (ilt v 2), (not (ilt v 2)), (ieq v 3); None otherwise."""
    neg = False
    if a[0] == 'not':
        neg, a = True, a[1]
    if a[0] not in ICMP or len(a) != 3:
        return None
    x, y = a[1], a[2]
    op = a[0]
    if x[0] == 'iconst' and y[0] != 'iconst':
        x, y = y, x
        op = {'ilt': 'igt', 'ile': 'ige', 'igt': 'ilt', 'ige': 'ile', 'ieq': 'ieq', 'ine': 'ine'}[op]
    if y[0] != 'iconst' or x[0] == 'iconst':
        return None
    k = y[1]
    if neg:
        op = {'ilt': 'ige', 'ile': 'igt', 'igt': 'ile', 'ige': 'ilt', 'ieq': 'ine', 'ine': 'ieq'}[op]
    if op == 'ilt':
        return (x, None, k - 1)
    if op == 'ile':
        return (x, None, k)
    if op == 'igt':
        return (x, k + 1, None)
    if op == 'ige':
        return (x, k, None)
    if op == 'ieq':
        return (x, k, k)
    return None


def show(t, depth=0):
    if t[0] in ('fvar', 'ivar', 'bvar'):
        return t[1]
    if t[0] == 'fconst':
        return str(float(t[1])) if t[1].denominator != 1 else '%d.0' % t[1].numerator
    if t[0] in ('iconst', 'bconst'):
        return str(t[1])
    if depth > 6:
        return '(%s ...)' % t[0]
    return '(%s %s)' % (t[0], ' '.join(show(a, depth + 1) if isinstance(a, tuple) else str(a) for a in t[1:]))


def subterms(t, seen=None):
    if seen is None:
        seen = set()
    if id(t) in seen:
        return seen
    seen.add(id(t))
    for a in t[1:]:
        if isinstance(a, tuple):
            subterms(a, seen)
    return seen


def walk(t, fn, memo=None):
    """Bottom-up rebuild: fn(op, new_args, old_term) -> term."""
    if memo is None:
        memo = {}
    if t in memo:
        return memo[t]
    args = [walk(a, fn, memo) if isinstance(a, tuple) else a for a in t[1:]]
    r = fn(t[0], args, t)
    memo[t] = r
    return r


def substitute(t, mapping):
    """Replace whole sub-terms (keys of mapping) by other terms."""
    memo = dict(mapping)

    def fn(op, args, old):
        return mk(op, *args)
    return walk(t, fn, memo)


def free_vars(t, acc=None, seen=None):
    if acc is None:
        acc, seen = {}, set()
    if t in seen:
        return acc
    seen.add(t)
    if t[0] in ('fvar', 'ivar', 'bvar'):
        acc[t[1]] = t[0][0]
    elif t[0] == 'app':
        acc.setdefault('@' + t[1], len(t) - 2)
    for a in t[1:]:
        if isinstance(a, tuple):
            free_vars(a, acc, seen)
    return acc


def contains(t, pred, seen=None):
    if seen is None:
        seen = set()
    if t in seen:
        return False
    seen.add(t)
    if pred(t):
        return True
    return any(contains(a, pred, seen) for a in t[1:] if isinstance(a, tuple))
