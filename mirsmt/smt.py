"""Engine M, part 3: SMT-LIB2 emission of term DAGs under a chosen float semantics, and the solver runner.

Semantics ('R', ints) : floats are reals (+ - * /; sqrt by a witness r >= 0, r*r = a under a >= 0; is_finite = true,
                        is_nan = false; +-inf / NaN are unconstrained fresh reals, so an identity that needs them is
                        unprovable); integers are Int, or relaxed to Real when ints='real' (this only enlarges the
                        quantified domain).
Semantics ('F', eb, sb): (_ FloatingPoint eb sb), RNE, bit-precise; integers are Int (converted with to_fp of to_real).
One solver process per query (z3's incremental mode is far weaker on NRA/FP); queries of a property run in parallel.
"""
import os, re, subprocess, tempfile, time, threading
from concurrent.futures import ThreadPoolExecutor
from fractions import Fraction
from . import term as T

Z3 = os.environ.get('VERIF_Z3', 'z3-new')
Z3_OLD = '/usr/bin/z3'
CVC5 = 'cvc5'


def rat(q):
    q = Fraction(q)
    if q < 0:
        return '(- %s)' % rat(-q)
    if q.denominator == 1:
        return '%d.0' % q.numerator
    return '(/ %d.0 %d.0)' % (q.numerator, q.denominator)


class Emitter:
    def __init__(self, sem=('R', 'real'), prefix='t'):
        self.sem = sem
        self.real = sem[0] in ('R', 'RE')
        self.relax = sem[0] == 'R' and sem[1] == 'real'
        self.re_u = None if sem[0] != 'RE' else Fraction(1, 2 ** sem[1])     # relative rounding error bound per float operation
        self.memo = {}
        self.defs = []            # (name, sort, body) in dependency order
        self.decls = {}           # name -> declaration line
        self.side = []            # side constraints (sqrt witnesses, ...)
        self.prefix = prefix
        self.n = 0
        self.refcount = {}
        self.bvint = (not self.real) and len(sem) > 3 and sem[3] == 'bv'
        if not self.real:
            self.eb, self.sb = sem[1], sem[2]
            self.FS = '(_ FloatingPoint %d %d)' % (self.eb, self.sb)

    # ---- sorts
    def fsort(self):
        return 'Real' if self.real else self.FS

    def isort(self):
        if getattr(self, 'bvint', False):
            return '(_ BitVec 64)'
        return 'Real' if self.relax else 'Int'

    def declare(self, name, sort):
        nm = smtname(name)
        if nm not in self.decls:
            self.decls[nm] = '(declare-const %s %s)' % (nm, sort)
        return nm

    def declare_fun(self, name, nargs, sort_in, sort_out):
        if name not in self.decls:
            self.decls[name] = '(declare-fun %s (%s) %s)' % (name, ' '.join([sort_in] * nargs), sort_out)
        return name

    def fresh(self, base, sort):
        self.n += 1
        return self.declare('%s!%d' % (base, self.n), sort)

    def count_refs(self, t, seen):
        self.refcount[t] = self.refcount.get(t, 0) + 1
        if t in seen:
            return
        seen.add(t)
        for a in t[1:]:
            if isinstance(a, tuple):
                self.count_refs(a, seen)

    def emit(self, t):
        self.count_refs(t, set())
        return self._e(t)

    def _e(self, t):
        if t in self.memo:
            return self.memo[t]
        s = self._emit(t)
        # name shared non-leaf nodes to keep the text linear in the DAG size
        if len(s) > 60 and t[0] not in ('fvar', 'ivar', 'bvar', 'fconst', 'iconst', 'bconst'):
            self.n += 1
            nm = '%s%d' % (self.prefix, self.n)
            self.defs.append((nm, self.sort_of(t), s))
            s = nm
        self.memo[t] = s
        return s

    def sort_of(self, t):
        op = t[0]
        if op in ('fvar', 'fconst', 'fbits', 'fepsilon', 'fminpos', 'fmaxval', 'fadd', 'fsub', 'fmul', 'fdiv', 'fneg', 'fsqrt', 'fabs', 'ffloor', 'fceil', 'fround', 'ftrunc', 'i2f', 'exp', 'ln', 'app',
                  'finf', 'fninf', 'fnan', 'fmin', 'fmax', 'fite', 'f2f32'):
            return self.fsort()
        if op in ('ivar', 'iconst', 'iadd', 'isub', 'imul', 'idiv', 'irem', 'f2i', 'imin', 'imax', 'iite'):
            return self.isort()
        return 'Bool'

    def _emit(self, t):
        op = t[0]
        e = self._e
        R = self.real
        if op == 'fvar':
            return self.declare(t[1], self.fsort())
        if op == 'ivar':
            return self.declare(t[1], self.isort())
        if op == 'bvar':
            return self.declare(t[1], 'Bool')
        if op == 'bconst':
            return 'true' if t[1] else 'false'
        if op == 'iconst' and self.bvint:
            return '(_ bv%d 64)' % (t[1] % (1 << 64))
        if self.bvint and op in ('iadd', 'isub', 'imul'):
            return '(%s %s %s)' % ({'iadd': 'bvadd', 'isub': 'bvsub', 'imul': 'bvmul'}[op], e(t[1]), e(t[2]))
        if self.bvint and op in ('ilt', 'ile', 'igt', 'ige', 'ieq', 'ine'):
            if op == 'ine':
                return '(not (= %s %s))' % (e(t[1]), e(t[2]))
            return '(%s %s %s)' % ({'ilt': 'bvult', 'ile': 'bvule', 'igt': 'bvugt', 'ige': 'bvuge', 'ieq': '='}[op], e(t[1]), e(t[2]))
        if self.bvint and op == 'i2f':
            return '((_ to_fp_unsigned %d %d) RNE %s)' % (self.eb, self.sb, e(t[1]))
        if op == 'iconst':
            v = t[1]
            if self.relax:
                return rat(v)
            return str(v) if v >= 0 else '(- %d)' % -v
        if op in ('fepsilon', 'fminpos', 'fmaxval'):
            # format-relative constants of the generic Float type: epsilon = 2^-(sb-1), min_positive = 2^emin, max finite
            eb, sb = (11, 53) if R else (self.eb, self.sb)
            bias = 2 ** (eb - 1) - 1
            val = {'fepsilon': Fraction(1, 2 ** (sb - 1)), 'fminpos': Fraction(1, 2 ** (bias - 1)), 'fmaxval': Fraction((2 ** sb - 1) * 2 ** (bias - sb + 1))}[op]
            return rat(val) if R else '((_ to_fp %d %d) RNE %s)' % (eb, sb, rat(val))
        if op == 'fbits':
            if R:
                import struct
                return rat(Fraction(struct.unpack('<d', struct.pack('<Q', t[1]))[0]))
            return '((_ to_fp %d %d) #x%016x)' % (self.eb, self.sb, t[1])
        if op == 'fconst':
            return rat(t[1]) if R else '((_ to_fp %d %d) RNE %s)' % (self.eb, self.sb, rat(t[1]))
        if op in ('fadd', 'fsub', 'fmul', 'fdiv'):
            if R:
                ex = '(%s %s %s)' % ({'fadd': '+', 'fsub': '-', 'fmul': '*', 'fdiv': '/'}[op], e(t[1]), e(t[2]))
                if self.re_u is not None:
                    d = self.fresh('delta', 'Real')
                    self.side.append('(and (<= %s %s) (<= %s %s))' % (rat(-self.re_u), d, d, rat(self.re_u)))
                    return '(* %s (+ 1.0 %s))' % (ex, d)
                return ex
            return '(fp.%s RNE %s %s)' % (op[1:], e(t[1]), e(t[2]))
        if op == 'fneg':
            return '(- %s)' % e(t[1]) if R else '(fp.neg %s)' % e(t[1])
        if op == 'fabs':
            x = e(t[1])
            return '(ite (>= %s 0.0) %s (- %s))' % (x, x, x) if R else '(fp.abs %s)' % x
        if op in ('fmin', 'fmax'):
            a, b = e(t[1]), e(t[2])
            if R:
                return '(ite (%s %s %s) %s %s)' % ('<=' if op == 'fmin' else '>=', a, b, a, b)
            return '(fp.%s %s %s)' % (op[1:], a, b)
        if op == 'fsqrt':
            a = e(t[1])
            if R:
                r = self.fresh('sqrt', 'Real')
                self.side.append('(=> (>= %s 0.0) (and (>= %s 0.0) (= (* %s %s) %s)))' % (a, r, r, r, a))
                return r
            return '(fp.sqrt RNE %s)' % a
        if op == 'ffloor':
            x = e(t[1])
            return '(to_real (to_int %s))' % x if R else '(fp.roundToIntegral RTN %s)' % x
        if op == 'fceil':
            x = e(t[1])
            return '(- (to_real (to_int (- %s))))' % x if R else '(fp.roundToIntegral RTP %s)' % x
        if op == 'ftrunc':
            x = e(t[1])
            return '(ite (>= %s 0.0) (to_real (to_int %s)) (- (to_real (to_int (- %s)))))' % (x, x, x) if R else '(fp.roundToIntegral RTZ %s)' % x
        if op == 'fround':       # Rust f64::round: half away from zero
            x = e(t[1])
            if R:
                return '(ite (>= %s 0.0) (to_real (to_int (+ %s 0.5))) (- (to_real (to_int (+ (- %s) 0.5)))))' % (x, x, x)
            return '(fp.roundToIntegral RNA %s)' % x
        if op == 'i2f':
            x = e(t[1])
            if R:
                return x if self.relax else '(to_real %s)' % x
            return '((_ to_fp %d %d) RNE (to_real %s))' % (self.eb, self.sb, x)
        if op == 'f2f32':
            return e(t[1])
        if op == 'f2i':          # `as usize`: truncation toward zero, saturating, NaN -> 0
            x = e(t[1])
            if R:
                fl = '(to_int %s)' % x
                if self.relax:
                    fl = '(to_real %s)' % fl
                return '(ite (>= %s 0.0) %s %s)' % (x, fl, '0.0' if self.relax else '0')
            return '(ite (or (fp.isNaN %s) (fp.isNegative %s)) 0 (to_int (fp.to_real (fp.roundToIntegral RTZ %s))))' % (x, x, x)
        if op in ('exp', 'ln'):
            self.declare_fun(op.upper(), 1, self.fsort(), self.fsort())
            return '(%s %s)' % (op.upper(), e(t[1]))
        if op == 'app':
            self.declare_fun(t[1], len(t) - 2, self.fsort(), self.fsort())
            return '(%s %s)' % (t[1], ' '.join(e(a) for a in t[2:]))
        if op in ('finf', 'fninf', 'fnan'):
            if R:
                return self.declare({'finf': 'INF', 'fninf': 'NINF', 'fnan': 'NAN'}[op], 'Real')
            return {'finf': '(_ +oo %d %d)', 'fninf': '(_ -oo %d %d)', 'fnan': '(_ NaN %d %d)'}[op] % (self.eb, self.sb)
        if op in ('flt', 'fle', 'fgt', 'fge', 'feq', 'fne'):
            a, b = e(t[1]), e(t[2])
            if R:
                return '(%s %s %s)' % ({'flt': '<', 'fle': '<=', 'fgt': '>', 'fge': '>=', 'feq': '=', 'fne': 'distinct'}[op], a, b)
            if op == 'fne':
                return '(not (fp.eq %s %s))' % (a, b)
            return '(%s %s %s)' % ({'flt': 'fp.lt', 'fle': 'fp.leq', 'fgt': 'fp.gt', 'fge': 'fp.geq', 'feq': 'fp.eq'}[op], a, b)
        if op in ('isfinite', 'isnan', 'isinfinite', 'issign_negative', 'issign_positive', 'isnormal'):
            x = e(t[1])
            if R:
                return {'isfinite': 'true', 'isnan': 'false', 'isinfinite': 'false', 'isnormal': 'true'}.get(op) or ('(< %s 0.0)' % x if op == 'issign_negative' else '(>= %s 0.0)' % x)
            return {'isfinite': '(not (or (fp.isNaN %s) (fp.isInfinite %s)))' % (x, x), 'isnan': '(fp.isNaN %s)' % x, 'isinfinite': '(fp.isInfinite %s)' % x,
                    'issign_negative': '(fp.isNegative %s)' % x, 'issign_positive': '(fp.isPositive %s)' % x, 'isnormal': '(fp.isNormal %s)' % x}[op]
        if op in ('iadd', 'isub', 'imul'):
            return '(%s %s %s)' % ({'iadd': '+', 'isub': '-', 'imul': '*'}[op], e(t[1]), e(t[2]))
        if op == 'idiv':
            return '(/ %s %s)' % (e(t[1]), e(t[2])) if self.relax else '(div %s %s)' % (e(t[1]), e(t[2]))
        if op == 'irem':
            return '(mod %s %s)' % (e(t[1]), e(t[2]))
        if op in ('imin', 'imax'):
            a, b = e(t[1]), e(t[2])
            return '(ite (%s %s %s) %s %s)' % ('<=' if op == 'imin' else '>=', a, b, a, b)
        if op in ('ilt', 'ile', 'igt', 'ige', 'ieq', 'ine'):
            return '(%s %s %s)' % ({'ilt': '<', 'ile': '<=', 'igt': '>', 'ige': '>=', 'ieq': '=', 'ine': 'distinct'}[op], e(t[1]), e(t[2]))
        if op == 'beq':
            return '(= %s %s)' % (e(t[1]), e(t[2]))
        if op == 'not':
            return '(not %s)' % e(t[1])
        if op in ('and', 'or'):
            return '(%s %s)' % (op, ' '.join(e(a) for a in t[1:]))
        if op in ('fite', 'iite'):
            return '(ite %s %s %s)' % (e(t[1]), e(t[2]), e(t[3]))
        if op == 'implies':
            return '(=> %s %s)' % (e(t[1]), e(t[2]))
        raise ValueError('cannot emit %r' % (t[0],))

    def script(self, asserts, extra_decls=(), extra_asserts=(), get_model=False, logic=None):
        """asserts: already emitted strings. Returns the complete SMT-LIB2 text."""
        out = []
        if logic:
            out.append('(set-logic %s)' % logic)
        out += list(self.decls.values())
        out += list(extra_decls)
        for nm, sort, body in self.defs:
            out.append('(define-fun %s () %s %s)' % (nm, sort, body))
        for s in self.side:
            out.append('(assert %s)' % s)
        for a in extra_asserts:
            out.append('(assert %s)' % a)
        for a in asserts:
            out.append('(assert %s)' % a)
        out.append('(check-sat)')
        if get_model:
            out.append('(get-model)')
        return '\n'.join(out) + '\n'


def smtname(n):
    return n if re.fullmatch(r'[A-Za-z_][\w!.]*', n) else '|%s|' % n


# ----------------------------------------------------------------------------------------------- running solvers
def run_solver(text, solver='z3-new', timeout=60, seed=0):
    """-> (verdict in sat|unsat|unknown|timeout|error, raw output, seconds)"""
    if solver == 'cvc5' and '(set-logic' not in text:
        text = '(set-logic ALL)\n' + text
    with tempfile.NamedTemporaryFile('w', suffix='.smt2', delete=False, dir=os.environ.get('VERIF_SMT_TMP', None)) as fh:
        fh.write(text)
        path = fh.name
    if solver in ('z3-new', 'z3'):
        exe = Z3 if solver == 'z3-new' else Z3_OLD
        cmd = [exe, '-T:%d' % int(timeout), 'sat.random_seed=%d' % seed, 'smt.random_seed=%d' % seed, path]
    else:
        cmd = [CVC5, '--lang', 'smt2', '--tlimit=%d' % int(timeout * 1000), '--produce-models', '--seed=%d' % seed, path]
    t = time.time()
    try:
        p = subprocess.run(cmd, capture_output=True, text=True, timeout=timeout + 10)
        out = p.stdout + p.stderr
    except subprocess.TimeoutExpired:
        out = 'timeout'
    finally:
        try:
            os.unlink(path)
        except OSError:
            pass
    dt = time.time() - t
    first = out.strip().split('\n')[0].strip() if out.strip() else ''
    errs = [l for l in out.split('\n') if '(error' in l and 'model is not available' not in l and 'Cannot get model' not in l]
    if errs:
        return 'error', out, dt
    if first in ('sat', 'unsat'):
        return first, out, dt
    if first == 'unknown':
        return 'unknown', out, dt
    if 'timeout' in out.lower() or first == '':
        return 'timeout', out, dt
    return 'error', out, dt


def parse_model(out):
    """Extract (define-fun name () Sort value) entries of a z3 model as {name: smt value text}."""
    model = {}
    for m in re.finditer(r'\(define-fun ([^\s()]+|\|[^|]*\|) \(\) (\([^()]*\)|\w+)\s+(.*?)\)\s*(?=\(define-fun|\)\s*$)', out, re.S):
        model[m.group(1).strip('|')] = ' '.join(m.group(3).split())
    return model


def smt_real_to_fraction(s):
    s = s.strip()
    toks = re.findall(r'\(|\)|[^\s()]+', s)
    pos = [0]

    def parse():
        tk = toks[pos[0]]
        pos[0] += 1
        if tk == '(':
            op = toks[pos[0]]
            pos[0] += 1
            args = []
            while toks[pos[0]] != ')':
                args.append(parse())
            pos[0] += 1
            if op == '-':
                return -args[0] if len(args) == 1 else args[0] - args[1]
            if op == '/':
                return args[0] / args[1]
            if op == '+':
                return sum(args)
            if op == '*':
                r = Fraction(1)
                for a in args:
                    r *= a
                return r
            if op == 'root-obj':
                raise ValueError('algebraic')
            raise ValueError(op)
        return Fraction(tk.rstrip('?'))
    return parse()


def race(text, solver, timeout, seeds):
    """Run the same query under several seeds concurrently; return the first definitive verdict and stop the others."""
    import signal
    procs = []
    paths = []
    t0 = time.time()
    if solver == 'cvc5' and '(set-logic' not in text:
        text = '(set-logic ALL)\n' + text
    for sd in seeds:
        with tempfile.NamedTemporaryFile('w', suffix='.smt2', delete=False) as fh:
            fh.write(text)
            paths.append(fh.name)
        if solver in ('z3-new', 'z3'):
            cmd = [Z3 if solver == 'z3-new' else Z3_OLD, '-T:%d' % int(timeout), 'sat.random_seed=%d' % sd, 'smt.random_seed=%d' % sd, 'nlsat.seed=%d' % sd, paths[-1]]
        else:
            cmd = [CVC5, '--lang', 'smt2', '--tlimit=%d' % int(timeout * 1000), '--produce-models', '--seed=%d' % sd, paths[-1]]
        procs.append(subprocess.Popen(cmd, stdout=subprocess.PIPE, stderr=subprocess.STDOUT, text=True))
    result = None
    outs = {}
    try:
        while time.time() - t0 < timeout + 10:
            alive = False
            for i, p in enumerate(procs):
                if i in outs:
                    continue
                rc = p.poll()
                if rc is None:
                    alive = True
                    continue
                out = p.stdout.read()
                outs[i] = out
                first = out.strip().split('\n')[0].strip() if out.strip() else ''
                errs = [l for l in out.split('\n') if '(error' in l and 'model is not available' not in l and 'Cannot get model' not in l]
                if first in ('sat', 'unsat') and not errs:
                    result = (first, out, time.time() - t0)
                    break
            if result or not alive:
                break
            time.sleep(0.05)
    finally:
        for p in procs:
            if p.poll() is None:
                try:
                    p.kill()
                except OSError:
                    pass
        for path in paths:
            try:
                os.unlink(path)
            except OSError:
                pass
    if result:
        return result
    dt = time.time() - t0
    any_out = ' '.join(outs.values())
    if '(error' in any_out and 'model is not available' not in any_out and 'Cannot get model' not in any_out:
        return 'error', any_out, dt
    if 'unknown' in any_out:
        return 'unknown', any_out, dt
    return 'timeout', any_out or 'timeout', dt


class Pool:
    """Runs queries in parallel, one solver process each."""

    def __init__(self, workers=None):
        self.ex = ThreadPoolExecutor(max_workers=workers or min(16, (os.cpu_count() or 4)))

    def submit(self, text, solver='z3-new', timeout=60, seed=0, portfolio=None):
        """Hard queries (timeout >= 100 s) are raced under several solver seeds: nlsat / FP run times vary by orders of
        magnitude with the seed; the first definitive verdict (sat/unsat) wins, disagreeing verdicts are an error."""
        if portfolio is None:
            portfolio = 3 if timeout >= 100 else 1
        if portfolio <= 1:
            return self.ex.submit(run_solver, text, solver, timeout, seed)
        return self.ex.submit(race, text, solver, timeout, [seed + 7919 * i for i in range(portfolio)])
