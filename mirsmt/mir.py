"""Engine M, part 1: parser for rustc's textual MIR (-Zunpretty=mir) and a path-forking symbolic executor.

The executor is an explicit stack machine over frames of locals. Values are trees:
  ('f', term) float   ('i', term) integer   ('b', term) bool   ('unit',)   ('str', text)   ('opaque', text)
  ('adt', type_name, variant_index, [fields])      -- structs (variant 0), tuples (type 'tuple'), enum variants
  ('symenum', type_name, disc_term, [fields])      -- enum with a symbolic discriminant whose variants all carry the same
                                                      payload shape (Confidence); `discriminant` forks at switchInt
  ('ref', frame_id, local, path)                   -- reference to a place of a live frame (writes through &mut reach it)
  ('closure', text)
Terms are hash-consed tuples (see term.py); the float meaning (reals / FloatingPoint) is chosen when emitting SMT.

Anything not modelled raises Stuck and the obligation using it is reported INCONCLUSIVE - never silently skipped.
"""
import re, copy
from fractions import Fraction
from . import term as T


class Stuck(Exception):
    pass


# ----------------------------------------------------------------------------------------------- parsing
def split_top(s, sep=','):
    out, depth, cur = [], 0, ''
    i = 0
    instr = False
    while i < len(s):
        ch = s[i]
        if ch == '"' and (i == 0 or s[i - 1] != '\\'):
            instr = not instr
        if not instr:
            if ch in '([{':
                depth += 1
            elif ch in ')]}':
                depth -= 1
            elif ch == '<' and not (i > 0 and s[i - 1] == '-'):
                depth += 1
            elif ch == '>' and i > 0 and s[i - 1] not in '-=':
                depth -= 1
        if ch == sep and depth == 0 and not instr:
            out.append(cur.strip())
            cur = ''
        else:
            cur += ch
        i += 1
    if cur.strip():
        out.append(cur.strip())
    return out


def find_top(s, pat):
    depth = 0
    instr = False
    for i, ch in enumerate(s):
        if ch == '"' and (i == 0 or s[i - 1] != '\\'):
            instr = not instr
        if instr:
            continue
        if ch in '([{':
            depth += 1
        elif ch in ')]}':
            depth -= 1
        if depth == 0 and s.startswith(pat, i):
            return i
    return -1


class Fn:
    def __init__(self, name, args, ret):
        self.name, self.args, self.ret = name, args, ret      # args: [(local, type)]
        self.blocks = {}
        self.locals = {}
        self.is_const = False

    @property
    def short(self):
        return self.name.split('::')[-1]


def parse_mir(text):
    fns = []
    cur = None
    bb = None
    for line in text.split('\n'):
        line = line.rstrip('\n')
        if (line.startswith('fn ') or line.startswith('const ') or line.startswith('static ')) and line.endswith('{'):
            m = re.match(r'fn (.*?)\((.*)\) -> (.*) \{$', line)
            if m:
                args = []
                for a in split_top(m.group(2)):
                    if ': ' in a:
                        n, t = a.split(': ', 1)
                        args.append((n.strip(), t.strip()))
                cur = Fn(m.group(1), args, m.group(3))
                fns.append(cur)
                bb = None
                continue
            m = re.match(r'(?:const|static) (.*?): (.*) = \{$', line)
            if m:
                cur = Fn(m.group(1), [], m.group(2))
                cur.is_const = True
                fns.append(cur)
                bb = None
                continue
            cur = None
            continue
        m = re.match(r'(?:const|static) ([\w:]+): (.*?) = const (.*);$', line)
        if m and cur is None:
            f = Fn(m.group(1), [], m.group(2))
            f.is_const = True
            f.blocks['bb0'] = ['_0 = const %s;' % m.group(3), 'return;']
            fns.append(f)
            continue
        if cur is None:
            continue
        if line == '}':
            cur = None
            continue
        m = re.match(r'\s+let (?:mut )?(_\d+): (.*);$', line)
        if m:
            cur.locals[m.group(1)] = m.group(2)
            continue
        m = re.match(r'\s+(bb\d+)(?: \(cleanup\))?: \{$', line)
        if m:
            bb = m.group(1)
            cur.blocks[bb] = []
            continue
        if bb and re.match(r'\s{8}\S', line):
            cur.blocks[bb].append(line.strip())
    return fns


def parse_place(s):
    s = s.strip()
    if re.fullmatch(r'_\d+', s):
        return (s, [])
    if not (s[0] == '(' and s[-1] == ')'):
        m = re.fullmatch(r'(.*)\[(_\d+|\d+ of \d+)\]', s)
        if m:
            b, p = parse_place(m.group(1))
            return (b, p + [('index', m.group(2))])
        raise Stuck('place? ' + s)
    inner = s[1:-1]
    if inner[0] == '*':
        b, p = parse_place(inner[1:])
        return (b, p + [('deref',)])
    if inner[0] == '(':
        d = 0
        for j, ch in enumerate(inner):
            if ch == '(':
                d += 1
            if ch == ')':
                d -= 1
                if d == 0:
                    break
        base, rest = inner[:j + 1], inner[j + 1:]
    else:
        m = re.match(r'_\d+', inner)
        if not m:
            raise Stuck('place? ' + s)
        base, rest = m.group(0), inner[m.end():]
    b, p = parse_place(base)
    m = re.match(r' as (\w+)$', rest)
    if m:
        return (b, p + [('down', m.group(1))])
    m = re.match(r' as variant#(\d+)$', rest)
    if m:
        return (b, p + [('down', int(m.group(1)))])
    m = re.match(r'\.(\d+): ', rest)
    if m:
        return (b, p + [('field', int(m.group(1)))])
    raise Stuck('place? ' + s)


VARIANTS = {
    'Result': ['Ok', 'Err'], 'Option': ['None', 'Some'], 'ControlFlow': ['Continue', 'Break'],
    'Interval': ['TwoSided', 'UpperOneSided', 'LowerOneSided'], 'Confidence': ['TwoSided', 'UpperOneSided', 'LowerOneSided'],
    'IntervalError': ['InvalidBounds', 'EmptyInterval'],
    'CIError': ['TooFewSamples', 'TooFewSuccesses', 'TooFewFailures', 'InvalidConfidenceLevel', 'InvalidQuantile', 'InvalidSuccesses',
                'NonPositiveValue', 'InvalidInputData', 'FloatConversionError', 'IndexError', 'Error', 'IntervalError', 'DifferentSampleSizes'],
    'Bound': ['Included', 'Excluded', 'Unbounded'], 'Ordering': ['Less', 'Equal', 'Greater'],
}


def learn_variants(src_root):
    """Refresh the enum variant tables from the crate's own sources (so an edit that reorders variants is honoured)."""
    import os
    for root, _, files in os.walk(src_root):
        for f in files:
            if not f.endswith('.rs'):
                continue
            txt = open(os.path.join(root, f)).read()
            for m in re.finditer(r'pub enum (\w+)(?:<[^>]*>)?\s*(?:where[^{]*)?\{(.*?)\n\}', txt, re.S):
                body = re.sub(r'//.*', '', m.group(2))
                body = re.sub(r'#\[[^\]]*\]', '', body)
                names = []
                for item in split_top(body):
                    mm = re.match(r'\s*(\w+)', item)
                    if mm:
                        names.append(mm.group(1))
                if names:
                    VARIANTS[m.group(1)] = names


def tyname(t):
    t = t.strip().lstrip('&').replace('mut ', '').strip()
    t = re.sub(r'<.*', '', t)
    return t.split('::')[-1]


# ----------------------------------------------------------------------------------------------- machine
class Result:
    def __init__(self, pc, value, store=None, kind='return'):
        self.pc, self.value, self.store, self.kind = pc, value, store, kind    # kind: return | panic | stuck

    def __repr__(self):
        return 'Result(%s, %s)' % (self.kind, show(self.value))


class Machine:
    def __init__(self, fns, src_root, models, max_paths=4000):
        self.fns = fns
        self.src_root = src_root
        self.models = models
        self.byname = {}
        for f in fns:
            self.byname.setdefault(f.short, []).append(f)
        self.srccache = {}
        self.max_paths = max_paths
        self.results = []
        self.touched = set()       # names of crate functions whose bodies were executed (evidence)
        self.fresh_n = 0
        self.side = []             # side constraints introduced by models (e.g. sqrt witnesses): list of bool terms
        self.calls_log = []
        self.buf_vars = {}         # abstract sample buffers: (('os', idx term) | ('any', idx term, version)) -> element variable

    def fresh(self, base, sort='f'):
        self.fresh_n += 1
        name = '%s!%d' % (base, self.fresh_n)
        return T.var(name, sort)

    # ---- function lookup
    def impl_kind(self, fn):
        """None (free fn) | 'inherent' | 'trait' | 'macro' for `<impl at src/x.rs:L:C: ...>` methods."""
        m = re.search(r'<impl at (src/[\w/]+\.rs):(\d+):(\d+)', fn.name)
        if not m:
            return None
        key = m.group(1)
        if key not in self.srccache:
            try:
                self.srccache[key] = open(self.src_root + '/' + key[4:] if not key.startswith(self.src_root) else key).read().split('\n')
            except OSError:
                self.srccache[key] = []
        lines = self.srccache[key]
        ln = int(m.group(2)) - 1
        if ln >= len(lines):
            return 'macro'
        line = lines[ln]
        # derive attributes and macro invocations expand to trait impls
        if re.search(r'#\[(cfg_attr\(.*)?derive', line) or re.match(r'\s*#\[', line):
            return 'trait'
        if 'impl' not in line:
            return 'macro'
        head = line
        k = ln
        while '{' not in head and k + 1 < len(lines) and k < ln + 6:
            k += 1
            head += ' ' + lines[k]
        head = head.split('{')[0]
        return 'trait' if re.search(r'\bfor\b', re.sub(r'for<[^>]*>', '', head)) else 'inherent'

    def impl_self_type(self, fn):
        """Name of the Self type of the impl block a method belongs to (read from the source line MIR points at)."""
        m = re.search(r'<impl at (src/[\w/]+\.rs):(\d+):(\d+)', fn.name)
        if not m:
            return None
        self.impl_kind(fn)
        lines = self.srccache.get(m.group(1), [])
        ln = int(m.group(2)) - 1
        if ln >= len(lines):
            return None
        head = lines[ln]
        k = ln
        while '{' not in head and k + 1 < len(lines) and k < ln + 8:
            k += 1
            head += ' ' + lines[k]
        head = head.split('{')[0]
        head = re.sub(r'\bwhere\b.*', '', head)
        mm = re.search(r'\bfor\s+([\w:]+)', re.sub(r'for<[^>]*>', '', head))
        if mm:
            return mm.group(1).split('::')[-1]
        h = head.strip()
        if h.startswith('impl'):
            h = h[4:].lstrip()
            if h.startswith('<'):
                depth = 0
                for j, ch in enumerate(h):
                    if ch == '<':
                        depth += 1
                    elif ch == '>' and (j == 0 or h[j - 1] not in '-='):
                        depth -= 1
                        if depth == 0:
                            h = h[j + 1:].lstrip()
                            break
            mm = re.match(r'([\w:]+)', h)
            if mm:
                return mm.group(1).split('::')[-1]
        return None

    def find_fn(self, meth, recv_ty=None, trait=None, nargs=None, argv=None, ret_ty=None, free=False):
        cands = list(self.byname.get(meth, []))
        if nargs is not None:
            cands = [f for f in cands if len(f.args) == nargs]
        if free:
            return [f for f in cands if '<impl at' not in f.name]
        if recv_ty is not None:
            rt = tyname(recv_ty)
            generic = bool(re.fullmatch(r'[A-Z]\w?', rt))

            def recv_ok(f):
                if not f.args:
                    return tyname(f.ret) == rt or rt in f.ret
                a0 = tyname(f.args[0][1])
                if generic:
                    return bool(re.fullmatch(r'[A-Z]\w?', a0))
                return a0 == rt
            by_self = [f for f in cands if self.impl_self_type(f) == rt]
            c2 = by_self or [f for f in cands if recv_ok(f)]
            if c2:
                cands = c2
        if trait is True:
            c2 = [f for f in cands if self.impl_kind(f) in ('trait', 'macro')]
            cands = c2 or cands
        elif trait is False:
            c2 = [f for f in cands if self.impl_kind(f) in ('inherent',)]
            cands = c2 or [f for f in cands if self.impl_kind(f) is None] or cands
        if ret_ty is not None and len(cands) > 1:
            c2 = [f for f in cands if f.ret.replace(' ', '') == ret_ty.replace(' ', '')]
            cands = c2 or cands
        if argv is not None and len(cands) > 1:
            def shape_ok(f):
                for (an, at), v in zip(f.args, argv):
                    tn = tyname(at)
                    is_ref = at.strip().startswith('&')
                    vv = v
                    if re.fullmatch(r'[A-Z]\w?', tn) and not is_ref and vv[0] in ('adt', 'symenum'):
                        return False
                    if tn in ('f64', 'f32') and vv[0] not in ('f',):
                        return False
                    if tn in ('usize', 'u64', 'u32', 'i32', 'i64', 'isize') and vv[0] != 'i':
                        return False
                    if not is_ref and vv[0] in ('adt', 'symenum') and vv[1] != 'tuple' and tn != vv[1] and not re.fullmatch(r'[A-Z]\w?', tn) and tn != 'Self':
                        return False
                    if not is_ref and vv[0] == 'f' and tn not in ('f64', 'f32') and not re.fullmatch(r'[A-Z]\w?', tn):
                        return False
                return True
            c2 = [f for f in cands if shape_ok(f)]
            cands = c2 or cands
        return cands

    # ---- state helpers
    def resolve(self, st, fid, place):
        base, projs = place
        path = []
        cur = (fid, base)
        for p in projs:
            if p[0] == 'deref':
                v = self.read(st, cur, path)
                if v[0] != 'ref':
                    raise Stuck('deref of non-ref %s' % show(v))
                cur, path = (v[1], v[2]), list(v[3])
            elif p[0] == 'field':
                path.append(p[1])
            elif p[0] == 'down':
                pass
            elif p[0] == 'index' and re.fullmatch(r'_\d+', p[1]):
                iv = self.read(st, (fid, p[1]), [])
                if iv[0] != 'i':
                    raise Stuck('index by %s' % show(iv))
                path.append(('idx', iv[1]))
            else:
                raise Stuck('projection %r' % (p,))
        return cur, path

    def read(self, st, cell, path):
        loc = st['frames'][cell[0]]['locals']
        if cell[1] not in loc:
            raise Stuck('read of unset local %s' % cell[1])
        v = loc[cell[1]]
        for i in path:
            if isinstance(i, tuple) and i[0] == 'idx':
                if v[0] != 'buf':
                    raise Stuck('indexing into %s' % show(v))
                v = ('f', self.buf_elem(v, i[1]))
                continue
            if v[0] in ('adt', 'symenum'):
                if i >= len(v[3]):
                    raise Stuck('field %d of %s' % (i, show(v)))
                v = v[3][i]
            else:
                raise Stuck('field of %s' % show(v))
        return v

    def write(self, st, cell, path, val):
        loc = st['frames'][cell[0]]['locals']

        def upd(v, path):
            if not path:
                return val
            if v is None or v[0] not in ('adt', 'symenum'):
                raise Stuck('write into field of %s' % show(v))
            fs = list(v[3])
            while len(fs) <= path[0]:
                fs.append(None)
            fs[path[0]] = upd(fs[path[0]], path[1:])
            return (v[0], v[1], v[2], fs)
        loc[cell[1]] = upd(loc.get(cell[1]), path)

    def get(self, st, fid, ptxt):
        cell, path = self.resolve(st, fid, parse_place(ptxt))
        return self.read(st, cell, path)

    def put(self, st, fid, ptxt, val):
        cell, path = self.resolve(st, fid, parse_place(ptxt))
        self.write(st, cell, path, val)

    def deref(self, st, v):
        while v[0] == 'ref':
            v = self.read(st, (v[1], v[2]), list(v[3]))
        return v

    def const_value(self, c):
        c = c.strip()
        m = re.fullmatch(r'(-?[\d.]+(?:[eE][+-]?\d+)?)f(64|32)', c)
        if m:
            return ('f', T.fconst(Fraction(m.group(1))))
        m = re.fullmatch(r'(-?\d+)_(usize|isize|u\d+|i\d+)', c)
        if m:
            return ('i', T.iconst(int(m.group(1))))
        if c in ('true', 'false'):
            return ('b', T.bconst(c == 'true'))
        if c == '()':
            return ('unit',)
        if c.startswith('"'):
            return ('str', c)
        if c.startswith('ZeroSized'):
            m = re.match(r'ZeroSized: (\{closure@[^}]*\})', c)
            return ('adt', m.group(1), 0, []) if m else ('closure', c)
        if re.fullmatch(r"'.'", c):
            return ('i', T.iconst(ord(c[1])))
        std = {'f64::INFINITY': ('f', T.finf()), 'f64::NEG_INFINITY': ('f', T.fninf()), 'f64::NAN': ('f', T.fnan()),
               'f32::INFINITY': ('f', T.finf()), 'f32::NEG_INFINITY': ('f', T.fninf()), 'f32::NAN': ('f', T.fnan()),
               'usize::MAX': ('i', T.iconst(2 ** 64 - 1)), 'u64::MAX': ('i', T.iconst(2 ** 64 - 1)), 'usize::MIN': ('i', T.iconst(0)),
               'f64::EPSILON': ('f', T.fconst(Fraction(1, 2 ** 52))), 'f64::MAX': ('f', T.fconst(Fraction((2 ** 53 - 1) * 2 ** 971))),
               'f64::MIN_POSITIVE': ('f', T.fconst(Fraction(1, 2 ** 1022)))}
        cc = re.sub(r'^(std|core)::', '', c)
        cc = re.sub(r'^(f64|f32|usize|u64)::<impl (?:f64|f32|usize|u64)>::', r'\1::', cc)
        if cc in std:
            return std[cc]
        # named crate constant: evaluate its own MIR item
        name = c.split('::')[-1]
        cands = [f for f in self.fns if f.is_const and f.name.split('::')[-1] == name]
        if len(cands) == 1:
            sub = Machine(self.fns, self.src_root, self.models)
            res = sub.run(cands[0], [])
            rets = [r for r in res if r.kind == 'return']
            if len(rets) == 1 and not rets[0].pc:
                self.touched.add(cands[0].name)
                return rets[0].value
        return ('opaque', c)

    def operand(self, st, fid, s):
        s = s.strip()
        m = re.match(r'(copy|move) (.*)$', s)
        if m:
            return self.get(st, fid, m.group(2))
        m = re.match(r'const (.*)$', s)
        if m:
            return self.const_value(m.group(1))
        if re.match(r'^[<\w]', s) and '::' in s and not s.startswith(('copy', 'move', 'const')):
            return ('fnitem', s)             # a function item used as a value (e.g. `.map_err(CIError::from)`)
        raise Stuck('operand? ' + s)

    # ---- run
    def run(self, fn, argvals, pc=None, extra_locals=None):
        locs = {('_%d' % (i + 1)): v for i, v in enumerate(argvals)}
        if extra_locals:
            locs.update(extra_locals)
        st = {'frames': [{'fn': fn, 'locals': locs, 'bb': 'bb0', 'ret': None}], 'pc': list(pc or [])}
        self.touched.add(fn.name)
        work = [st]
        self.results = []
        while work:
            if len(self.results) + len(work) > self.max_paths:
                self.results.append(Result([], ('stuck', 'path budget exceeded (%d)' % self.max_paths), None, 'stuck'))
                break
            st = work.pop()
            try:
                self.step_until_done(st, work)
            except Stuck as e:
                self.results.append(Result(st['pc'], ('stuck', str(e)), None, 'stuck'))
            except RecursionError:
                self.results.append(Result(st['pc'], ('stuck', 'recursion'), None, 'stuck'))
        return self.results

    def fork(self, st, work, alts, fid, dest=None, nxt=None):
        """alts: [(cond term or None, value or ('panic', msg))]"""
        for cond, val in alts:
            if cond is not None:
                c = T.simplify_bool(cond)
                if c == T.bconst(False):
                    continue
                if T.contradicts(st['pc'], c):
                    continue
            s2 = copy_state(st)
            if cond is not None and T.simplify_bool(cond) != T.bconst(True):
                s2['pc'].append(T.simplify_bool(cond))
            if val is not None and val[0] == 'panic':
                self.results.append(Result(s2['pc'], val, None, 'panic'))
                continue
            if dest is not None:
                self.put(s2, fid, dest, val)
            s2['frames'][fid]['bb'] = nxt
            work.append(s2)

    def step_until_done(self, st, work):
        steps = 0
        while True:
            steps += 1
            if steps > 20000:
                raise Stuck('step budget exceeded (loop?)')
            fid = len(st['frames']) - 1
            fr = st['frames'][fid]
            if fr['bb'] not in fr['fn'].blocks:
                raise Stuck('no block %s in %s' % (fr['bb'], fr['fn'].name))
            fr.setdefault('visits', {})
            fr['visits'][fr['bb']] = fr['visits'].get(fr['bb'], 0) + 1
            if fr['visits'][fr['bb']] > 64:
                raise Stuck('loop in %s (back-edge to %s): loops are not supported by engine M' % (fr['fn'].name, fr['bb']))
            blk = fr['fn'].blocks[fr['bb']]
            for stmt in blk[:-1]:
                self.stmt(st, fid, stmt)
            term = blk[-1]
            if term == 'return;':
                rv = fr['locals'].get('_0', ('unit',))
                if fid == 0:
                    self.results.append(Result(st['pc'], rv, fr['locals'], 'return'))
                    return
                dest, nxt = fr['ret']
                st['frames'].pop()
                if fr.get('wrap') is not None:
                    rv = fr['wrap'](rv)
                self.put(st, fid - 1, dest, rv)
                st['frames'][fid - 1]['bb'] = nxt
                continue
            if term == 'unreachable;':
                return
            m = re.match(r'goto -> (bb\d+);', term)
            if m:
                fr['bb'] = m.group(1)
                continue
            m = re.match(r'drop\(.*\) -> \[return: (bb\d+), .*\];', term)
            if m:
                fr['bb'] = m.group(1)
                continue
            m = re.match(r'switchInt\((.*)\) -> \[(.*)\];', term)
            if m:
                v = self.operand(st, fid, m.group(1))
                arms = [a.strip().split(': ') for a in m.group(2).split(',')]
                d = dict(arms)
                if v[0] == 'i' and T.is_iconst(v[1]):
                    fr['bb'] = d.get(str(T.ival(v[1])), d.get('otherwise'))
                    continue
                if v[0] == 'b' and T.is_bconst(v[1]):
                    fr['bb'] = d.get('1' if T.bval(v[1]) else '0', d.get('otherwise'))
                    continue
                alts = []
                seen = []
                for k, tgt in arms:
                    if k == 'otherwise':
                        cond = T.and_(*[T.not_(o) for o in seen]) if seen else T.bconst(True)
                    else:
                        if v[0] == 'b':
                            cond = v[1] if k != '0' else T.not_(v[1])
                        elif v[0] == 'i':
                            cond = T.mk('ieq', v[1], T.iconst(int(k)))
                        else:
                            raise Stuck('switchInt on %s' % show(v))
                        seen.append(cond)
                    alts.append((cond, tgt))
                for cond, tgt in alts:
                    c = T.simplify_bool(cond)
                    if c == T.bconst(False) or T.contradicts(st['pc'], c):
                        continue
                    s2 = copy_state(st)
                    if c != T.bconst(True):
                        s2['pc'].append(c)
                    s2['frames'][fid]['bb'] = tgt
                    work.append(s2)
                return
            m = re.match(r'assert\((!?)(.*?), "(.*?)".*\) -> \[success: (bb\d+), .*\];', term)
            if m:
                v = self.operand(st, fid, m.group(2))
                c = v[1] if not m.group(1) else T.not_(v[1])
                c = T.simplify_bool(c)
                if c == T.bconst(True):
                    fr['bb'] = m.group(4)
                    continue
                bad = T.simplify_bool(T.not_(c))
                if bad != T.bconst(False) and not T.contradicts(st['pc'], bad):
                    self.results.append(Result(st['pc'] + [bad], ('panic', m.group(3)), None, 'panic'))
                if c == T.bconst(False):
                    return
                st['pc'].append(c)
                fr['bb'] = m.group(4)
                continue
            m = re.match(r'(.+?) = (.*)\((.*)\) -> \[return: (bb\d+), .*\];', term) or re.match(r'(.+?) = (.*)\((.*)\) -> (bb\d+);', term)
            if m:
                dest, callee, args, nxt = m.groups()
                argv = [self.operand(st, fid, a) for a in split_top(args)]
                alts = self.call(st, fid, callee.strip(), argv, dest, nxt)
                if alts is None:
                    continue            # frame pushed
                if len(alts) == 1 and alts[0][0] is None and alts[0][1][0] != 'panic':
                    self.put(st, fid, dest, alts[0][1])
                    fr['bb'] = nxt
                    continue
                self.fork(st, work, alts, fid, dest, nxt)
                return
            m = re.match(r'(.*)\((.*)\) -> (?:unwind .*|\[.*\]);', term)
            if m:      # diverging call (panic machinery)
                self.results.append(Result(st['pc'], ('panic', m.group(1)[:80] + '(' + m.group(2)[:120] + ')'), None, 'panic'))
                return
            raise Stuck('terminator? ' + term)

    def stmt(self, st, fid, s):
        if s.startswith(('StorageLive', 'StorageDead', 'nop', 'FakeRead', 'PlaceMention', 'Retag', 'AscribeUserType', 'Coverage', 'Deinit', 'ConstEvalCounter', 'BackwardIncompatibleDropHint')):
            return
        i = find_top(s, ' = ')
        if i < 0:
            raise Stuck('stmt? ' + s)
        dst, rhs = s[:i], s[i + 3:].rstrip(';')
        m = re.match(r'discriminant\((.*)\)$', dst)
        if m:
            raise Stuck('SetDiscriminant ' + s)
        self.put(st, fid, dst, self.rvalue(st, fid, rhs))

    def rvalue(self, st, fid, rhs):
        m = re.match(r'(Add|Sub|Mul|Div|Rem|Lt|Le|Gt|Ge|Eq|Ne|SubWithOverflow|AddWithOverflow|MulWithOverflow|BitAnd|BitOr|BitXor|Shl|Shr|AddUnchecked|SubUnchecked|MulUnchecked|Cmp)\((.*)\)$', rhs)
        if m:
            a, b = [self.operand(st, fid, x) for x in split_top(m.group(2))]
            return self.binop(m.group(1).replace('Unchecked', ''), a, b)
        m = re.match(r'(Not|Neg|PtrMetadata)\((.*)\)$', rhs)
        if m:
            a = self.operand(st, fid, m.group(2))
            if m.group(1) == 'Not':
                if a[0] != 'b':
                    raise Stuck('Not on %s' % show(a))
                return ('b', T.not_(a[1]))
            if m.group(1) == 'Neg':
                return ('f', T.mk('fneg', a[1])) if a[0] == 'f' else ('i', T.mk('isub', T.iconst(0), a[1]))
            if m.group(1) == 'PtrMetadata':
                b = self.deref(st, a)
                if b[0] == 'buf':
                    return ('i', b[1])
            raise Stuck('rvalue ' + rhs)
        m = re.match(r'(.*) as (\w+) \((\w+)(?:\(.*\))?\)$', rhs)
        if m:
            v = self.operand(st, fid, m.group(1))
            kind, ty = m.group(3), m.group(2)
            if kind == 'IntToFloat':
                return ('f', T.mk('i2f', v[1]))
            if kind == 'FloatToFloat':
                return ('f', v[1]) if ty == 'f64' else ('f', T.mk('f2f32', v[1]))
            if kind == 'FloatToInt':
                return ('i', T.mk('f2i', v[1]))
            if kind == 'IntToInt':
                # widening to a 64-bit unsigned target is the identity on the (non-negative) values the crate uses; a narrower or signed
                # target wraps: v mod 2^k, re-centred for signed types (two's complement)
                bits_ = {'u8': 8, 'u16': 16, 'u32': 32, 'i8': 8, 'i16': 16, 'i32': 32, 'i64': 64, 'isize': 64}.get(ty)
                if v[0] != 'i' or bits_ is None:
                    return v
                if ty.startswith('u'):
                    return ('i', T.mk('irem', v[1], T.iconst(2 ** bits_)))
                half = T.iconst(2 ** (bits_ - 1))
                return ('i', T.mk('isub', T.mk('irem', T.mk('iadd', v[1], half), T.iconst(2 ** bits_)), half))
            if kind in ('PointerCoercion', 'Transmute', 'PtrToPtr'):
                return v
            raise Stuck('cast ' + rhs)
        m = re.match(r'discriminant\((.*)\)$', rhs)
        if m:
            v = self.get(st, fid, m.group(1))
            v = self.deref(st, v)
            if v[0] == 'adt' and isinstance(v[2], int):
                return ('i', T.iconst(v[2]))
            if v[0] == 'symenum':
                return ('i', v[2])
            raise Stuck('discriminant of %s' % show(v))
        m = re.match(r'&(?:mut |raw const |raw mut )?(?:\(fake\) )?(.*)$', rhs)
        if m:
            cell, path = self.resolve(st, fid, parse_place(m.group(1)))
            return ('ref', cell[0], cell[1], tuple(path))
        m = re.match(r'CopyForDeref\((.*)\)$', rhs)
        if m:
            return self.get(st, fid, m.group(1))
        if rhs.startswith('no_retag '):
            rhs = rhs[len('no_retag '):]
        if rhs.startswith(('copy ', 'move ', 'const ')):
            return self.operand(st, fid, rhs)
        if rhs.startswith('{closure@'):
            m = re.match(r'(\{closure@[^}]*\})(?: \{ (.*) \})?$', rhs)
            if m:
                fields = [self.operand(st, fid, a.split(': ', 1)[1]) for a in split_top(m.group(2))] if m.group(2) else []
                return ('adt', m.group(1), 0, fields)
            return ('closure', rhs)
        if rhs == '()':
            return ('unit',)
        if rhs.startswith('[') and rhs.endswith(']') and ';' not in rhs:
            # fixed-size array literal [a, b, ...]: a value list (only iterated by value through the list-iterator models)
            return ('adt', 'array', 0, [self.operand(st, fid, a) for a in split_top(rhs[1:-1])])
        if rhs.startswith('(') and rhs.endswith(')'):
            return ('adt', 'tuple', 0, [self.operand(st, fid, a) for a in split_top(rhs[1:-1])])
        m = re.match(r'([\w:<>, ()&\'\[\];]+?)::(\w+)\((.*)\)$', rhs)
        if m:
            ty = tyname(re.sub(r'::<.*>$', '', m.group(1)))
            if ty in VARIANTS and m.group(2) in VARIANTS[ty]:
                return ('adt', ty, VARIANTS[ty].index(m.group(2)), [self.operand(st, fid, a) for a in split_top(m.group(3))])
            raise Stuck('unknown enum variant ' + rhs)
        m = re.match(r'([\w:<>, ()&\'\[\];]+?) \{ (.*) \}$', rhs)
        if m:
            ty = tyname(m.group(1))
            return ('adt', ty, 0, [self.operand(st, fid, a.split(': ', 1)[1]) for a in split_top(m.group(2))])
        m = re.match(r'([\w:<>, ()&\'\[\];]+?)::(\w+)$', rhs)
        if m:
            ty = tyname(re.sub(r'::<.*>$', '', m.group(1)))
            if ty in VARIANTS and m.group(2) in VARIANTS[ty]:
                return ('adt', ty, VARIANTS[ty].index(m.group(2)), [])
        raise Stuck('rvalue? ' + rhs)

    def binop(self, op, a, b):
        if a[0] == 'f' and b[0] == 'f':
            if op in ('Add', 'Sub', 'Mul', 'Div'):
                return ('f', T.mk('f' + op.lower(), a[1], b[1]))
            if op in ('Lt', 'Le', 'Gt', 'Ge', 'Eq', 'Ne'):
                return ('b', T.mk('f' + op.lower(), a[1], b[1]))
        if a[0] == 'i' and b[0] == 'i':
            if op in ('Lt', 'Le', 'Gt', 'Ge', 'Eq', 'Ne'):
                return ('b', T.simplify_bool(T.mk('i' + op.lower(), a[1], b[1])))
            base = op.replace('WithOverflow', '')
            if base in ('Add', 'Sub', 'Mul', 'Div', 'Rem'):
                r = T.mk('i' + base.lower(), a[1], b[1])
                if op.endswith('WithOverflow'):
                    ov = T.mk('ilt', a[1], b[1]) if base == 'Sub' else T.mk('igt', r, T.iconst(2 ** 64 - 1))
                    return ('adt', 'tuple', 0, [('i', r), ('b', T.simplify_bool(ov))])
                return ('i', r)
        if a[0] == 'b' and b[0] == 'b':
            if op == 'BitAnd':
                return ('b', T.and_(a[1], b[1]))
            if op == 'BitOr':
                return ('b', T.or_(a[1], b[1]))
            if op == 'Eq':
                return ('b', T.mk('beq', a[1], b[1]))
            if op in ('Ne', 'BitXor'):
                return ('b', T.not_(T.mk('beq', a[1], b[1])))
        raise Stuck('binop %s on %s, %s' % (op, show(a), show(b)))

    # ---- abstract sample buffers: ('buf', len term, guarantee, version). guarantee: 'all' (sorted ascending) or a frozenset of index terms
    # whose positions are known to hold their own order statistic (after a selection); elements are read as float variables:
    # OS(i) = "the i-th smallest value of the sample" for a guaranteed position, a fresh unconstrained value otherwise.
    def buf_elem(self, buf, idx):
        if buf[2] == 'all' or idx in buf[2]:
            key = ('os', idx)
        else:
            key = ('any', idx, buf[3])
        if key not in self.buf_vars:
            self.buf_vars[key] = T.var('%s%d' % ('OS' if key[0] == 'os' else 'UNSORTED', len(self.buf_vars)))
        return self.buf_vars[key]

    # ---- closures and thread-local cells
    def closure_fn(self, clos):
        """the MIR function implementing a closure value ('adt', '{closure@LOC}', 0, captures)"""
        if not (clos[0] == 'adt' and str(clos[1]).startswith('{closure@')):
            raise Stuck('not a closure: %s' % show(clos))
        cands = [f for f in self.fns if f.args and f.args[0][1].lstrip('&').replace('mut ', '').strip() == clos[1] and '{closure#' in f.name]
        if len(cands) != 1:
            raise Stuck('closure body for %s: %d candidates' % (clos[1], len(cands)))
        return cands[0]

    def push_closure(self, st, fid, clos, args, wrap=None):
        fn = self.closure_fn(clos)
        first = clos
        if fn.args[0][1].strip().startswith('&'):
            self.fresh_n += 1
            tmp = '_clos%d' % self.fresh_n
            st['frames'][fid]['locals'][tmp] = clos
            first = ('ref', fid, tmp, ())
        return ('push', fn, [first] + list(args), wrap)

    def symbolic_of_type(self, ty, base):
        ty = ty.strip()
        if ty in ('f64', 'f32'):
            return ('f', self.fresh(base, 'f'))
        if ty in ('usize', 'u64', 'u32', 'u16', 'u8', 'isize', 'i64', 'i32'):
            return ('i', self.fresh(base, 'i'))
        if ty == 'bool':
            return ('b', self.fresh(base, 'b'))
        m = re.match(r'(?:std::cell::|core::cell::)?Cell<(.*)>$', ty)
        if m:
            return ('adt', 'Cell', 0, [self.symbolic_of_type(m.group(1), base)])
        if ty.startswith('(') and ty.endswith(')'):
            return ('adt', 'tuple', 0, [self.symbolic_of_type(t, base) for t in split_top(ty[1:-1])])
        raise Stuck('cannot build an arbitrary value of type %s' % ty)

    # ---- calls
    def call(self, st, fid, callee, argv, dest, nxt):
        self.calls_log.append(callee)
        r = self.models.dispatch(self, st, fid, callee, argv)
        if r is not None:
            if isinstance(r, tuple) and r and r[0] == 'push':
                fn, args = r[1], r[2]
                wrap = r[3] if len(r) > 3 else None
                st['frames'].append({'fn': fn, 'locals': {('_%d' % (i + 1)): v for i, v in enumerate(args)}, 'bb': 'bb0', 'ret': (dest, nxt), 'wrap': wrap})
                self.touched.add(fn.name)
                if len(st['frames']) > 60:
                    raise Stuck('call depth')
                return None
            return r
        raise Stuck('call? ' + callee)


def copy_state(st):
    return {'frames': [{'fn': f['fn'], 'locals': dict(f['locals']), 'bb': f['bb'], 'ret': f['ret'], 'visits': dict(f.get('visits', {})), 'wrap': f.get('wrap')} for f in st['frames']],
            'pc': list(st['pc'])}


def show(v, depth=0):
    if v is None:
        return 'None'
    if v[0] == 'adt':
        nm = VARIANTS[v[1]][v[2]] if v[1] in VARIANTS and isinstance(v[2], int) and v[2] < len(VARIANTS[v[1]]) else ''
        return '%s::%s(%s)' % (v[1], nm, ', '.join(show(x) for x in v[3]))
    if v[0] == 'symenum':
        return '%s::?%s(%s)' % (v[1], T.show(v[2]), ', '.join(show(x) for x in v[3]))
    if v[0] in ('f', 'i', 'b'):
        s = T.show(v[1])
        return s if len(s) < 160 else s[:157] + '...'
    return repr(v)[:120]
