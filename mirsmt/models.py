"""Engine M, part 2: call resolution. Order: (1) oracles (statrs quantile functions, exp/ln) become uninterpreted
applications; (2) a fixed table of std / num-traits models; (3) crate-local bodies from the same MIR dump are inlined.
Every model used is recorded (evidence lists them); anything else is Stuck -> inconclusive."""
import re
from . import term as T
from .mir import Stuck, tyname, VARIANTS, show

GEN = re.compile(r'::<(?!impl )[^<>]*(?:<[^<>]*(?:<[^<>]*>[^<>]*)*>[^<>]*)*>')


def strip_generics(c):
    c = c.replace('->', '\u2192')          # `fn(A) -> B {path}` inside generic arguments: the arrow is not a closing bracket
    prev = None
    while prev != c:
        prev = c
        c = GEN.sub('', c)
    return c


def some(v):
    return ('adt', 'Option', 1, [v])


def none():
    return ('adt', 'Option', 0, [])


def ok(v):
    return ('adt', 'Result', 0, [v])


def err(v):
    return ('adt', 'Result', 1, [v])


FLOAT_TY = r'(?:[A-Z]\w?|f64|f32)'
INT_TY = r'(?:usize|u64|u32|u16|u8|isize|i64|i32)'


class Models:
    def __init__(self, oracles=True):
        self.used = set()
        self.oracles = oracles

    def note(self, name):
        self.used.add(name)

    def buffers(self, m, st, fid, callee, c, argv):
        if not argv:
            return None
        one = lambda v: [(None, v)]
        try:
            b = m.deref(st, argv[0])
        except Stuck:
            return None
        if b is None or b[0] != 'buf':
            return None
        last = re.sub(r'::<.*$', '', callee.split('>::')[-1] if '>::' in callee else callee.split('::')[-1])
        last = last.split('::')[-1]
        n, guar, ver = b[1], b[2], b[3]
        if last in ('into_iter', 'iter', 'copied', 'cloned', 'to_vec', 'clone', 'collect', 'as_slice', 'as_mut_slice', 'to_owned', 'from_iter', 'into_inner', 'unwrap'):
            self.note('sample buffer: %s keeps the sequence (abstract buffer; order and length preserved)' % last)
            return one(b)
        if last in ('deref', 'deref_mut', 'as_ref', 'as_mut', 'borrow', 'borrow_mut') and argv[0][0] == 'ref':
            return one(argv[0])
        if last in ('len',):
            return one(('i', n))
        if last == 'is_empty':
            return one(('b', T.mk('ieq', n, T.iconst(0))))
        def store(nb):
            if argv[0][0] != 'ref':
                raise Stuck('in-place buffer operation on a non-reference')
            r_ = argv[0]
            while True:
                inner = m.read(st, (r_[1], r_[2]), list(r_[3]))
                if inner[0] != 'ref':
                    break
                r_ = inner
            m.write(st, (r_[1], r_[2]), list(r_[3]), nb)
        def ascending(clos):
            if clos is None:
                return True
            want_args = r'(?:copy|move) _2, (?:copy|move) _3'
            if clos[0] == 'fnitem':
                # a function item as comparator (e.g. `sort_by(compare_or_panic)`): the free function of that name, arguments _1, _2
                nm = strip_generics(clos[1]).split('::')[-1]
                fc = [g for g in m.byname.get(nm, []) if '<impl at' not in g.name and len(g.args) == 2]
                if len(fc) != 1:
                    return False
                f = fc[0]
                want_args = r'(?:copy|move) _1, (?:copy|move) _2'
            else:
                try:
                    f = m.closure_fn(clos)
                except Stuck:
                    return False
            body = '\n'.join('\n'.join(l) for l in f.blocks.values())
            calls = re.findall(r'= (<[^\n]*?>::\w+|[\w:<>]+::unwrap)(?:::<[^\n(]*>)?\(([^\n]*?)\) ->', body)
            cmp_ok = [a for cn, a in calls if re.search(r' as (PartialOrd|Ord)>::(partial_cmp|cmp)$', cn)]
            other = [cn for cn, a in calls if not re.search(r' as (PartialOrd|Ord)>::(partial_cmp|cmp)$', cn) and not cn.endswith('unwrap')]
            return len(cmp_ok) == 1 and not other and re.fullmatch(want_args, cmp_ok[0].strip()) is not None
        if last in ('sort_by', 'sort_unstable_by', 'sort', 'sort_unstable'):
            clos = argv[1] if len(argv) > 1 else None
            if ascending(clos):
                self.note('sample buffer: %s with the ascending partial_cmp comparator -> every position holds its order statistic' % last)
                store(('buf', n, 'all', ver + 1))
            else:
                self.note('sample buffer: %s with an unrecognised comparator -> no position guaranteed' % last)
                store(('buf', n, frozenset(), ver + 1))
            return one(('unit',))
        if last in ('select_nth_unstable_by', 'select_nth_unstable'):
            idx = argv[1]
            clos = argv[2] if len(argv) > 2 else None
            if idx[0] != 'i':
                raise Stuck('select_nth index')
            self.note('sample buffer: %s(i) guarantees position i only (earlier guarantees at other positions are lost)' % last)
            g = 'all' if guar == 'all' and ascending(clos) else (frozenset([idx[1]]) if ascending(clos) else frozenset())
            inb = T.mk('ilt', idx[1], n)
            # the returned (&mut [T], &mut T, &mut [T]) is not modelled
            st_alts = []
            store(('buf', n, g, ver + 1))
            return [(inb, ('opaque', 'select_nth result')), (T.not_(inb), ('panic', 'select_nth_unstable: index out of bounds'))]
        if last in ('index', 'index_mut', 'get_unchecked', 'get_unchecked_mut') and argv[0][0] == 'ref' and len(argv) > 1 and argv[1][0] == 'i':
            r_ = argv[0]
            while True:
                inner = m.read(st, (r_[1], r_[2]), list(r_[3]))
                if inner[0] != 'ref':
                    break
                r_ = inner
            inb = T.mk('ilt', argv[1][1], n)
            return [(inb, ('ref', r_[1], r_[2], tuple(r_[3]) + (('idx', argv[1][1]),))), (T.not_(inb), ('panic', 'index out of bounds'))]
        raise Stuck('sample buffer operation %s is not modelled' % callee)

    def dispatch(self, m, st, fid, callee, argv):
        c = strip_generics(callee)
        d = lambda v: m.deref(st, v)
        one = lambda v: [(None, v)]

        # ---------------- short concrete iterators (Option::into_iter, chain, next): a list of values
        if argv:
            a0 = argv[0]
            try:
                a0d = d(a0)
            except Stuck:
                a0d = None
            lastseg = re.sub(r'::<.*$', '', callee.split('>::')[-1] if '>::' in callee else callee.split('::')[-1]).split('::')[-1]
            as_list = lambda v: (list(v[3]) if v[2] == 1 else []) if (v is not None and v[0] == 'adt' and v[1] == 'Option' and isinstance(v[2], int)) else (list(v[3]) if (v is not None and v[0] == 'adt' and v[1] == 'ListIter') else None)
            if lastseg == 'into_iter' and a0d is not None and a0d[0] == 'adt' and a0d[1] == 'array':
                self.note('fixed-size array literal by value: explicit value list')
                return one(('adt', 'ListIter', 0, list(a0d[3])))
            if lastseg == 'flatten' and a0d is not None and as_list(a0d) is not None and a0d[1] == 'ListIter':
                inner = [as_list(d(x)) for x in as_list(a0d)]
                if all(x is not None for x in inner):
                    self.note('Iterator::flatten over a concrete list of concrete Some/None: explicit value list')
                    return one(('adt', 'ListIter', 0, [y for x in inner for y in x]))
                raise Stuck('flatten over items that are not concrete Options')
            if lastseg == 'into_iter' and a0d is not None and a0d[0] == 'adt' and a0d[1] in ('Option', 'ListIter') and as_list(a0d) is not None and re.search(r'Option<|option::IntoIter|Chain<|Flatten<|array::IntoIter', callee):
                self.note('Option / chain iterators over concrete Some/None: explicit value list')
                return one(('adt', 'ListIter', 0, as_list(a0d)))
            if lastseg == 'chain' and a0d is not None and as_list(a0d) is not None and len(argv) == 2 and as_list(d(argv[1])) is not None:
                return one(('adt', 'ListIter', 0, as_list(a0d) + as_list(d(argv[1]))))
            if lastseg == 'next' and a0[0] == 'ref' and a0d is not None and a0d[0] == 'adt' and a0d[1] == 'ListIter':
                items = list(a0d[3])
                if not items:
                    return one(none())
                m.write(st, (a0[1], a0[2]), list(a0[3]), ('adt', 'ListIter', 0, items[1:]))
                return one(some(items[0]))

        # ---------------- std::mem::replace / swap on places reached through &mut
        if re.search(r'\bmem::replace$', c) and len(argv) == 2 and argv[0][0] == 'ref':
            self.note('std::mem::replace(dest, src): returns the old value of *dest, stores src')
            a0 = argv[0]
            old = m.read(st, (a0[1], a0[2]), list(a0[3]))
            m.write(st, (a0[1], a0[2]), list(a0[3]), argv[1])
            return one(old)
        if re.search(r'\bmem::swap$', c) and len(argv) == 2 and argv[0][0] == 'ref' and argv[1][0] == 'ref':
            self.note('std::mem::swap(a, b): exchanges the two places')
            a0, a1 = argv
            va, vb = m.read(st, (a0[1], a0[2]), list(a0[3])), m.read(st, (a1[1], a1[2]), list(a1[3]))
            m.write(st, (a0[1], a0[2]), list(a0[3]), vb)
            m.write(st, (a1[1], a1[2]), list(a1[3]), va)
            return one(('unit',))

        # ---------------- abstract sample buffers (quantile entry points): see Machine.buf_elem
        r = self.buffers(m, st, fid, callee, c, argv)
        if r is not None:
            return r

        # ---------------- statrs oracles
        if re.search(r'\bStudentsT::new$', c):
            self.note('statrs StudentsT::new: Ok iff dof > 0 (else Err -> unwrap panics); location/scale as given')
            dof = argv[2][1]
            good = T.mk('fgt', dof, T.fconst(0))
            return [(good, ok(('adt', 'StudentsT', 0, [argv[0], argv[1], argv[2]]))), (T.not_(good), err(('opaque', 'StatsError')))]
        if re.search(r'\bNormal::new$', c):
            self.note('statrs Normal::new(0,1): Ok')
            return one(ok(('adt', 'Normal', 0, [argv[0], argv[1]])))
        if 'ContinuousCDF' in c and c.endswith('::inverse_cdf'):
            dist = d(argv[0])
            p = argv[1][1]
            if 'StudentsT' in c:
                self.note('oracle Tq(p, dof) := <StudentsT as ContinuousCDF>::inverse_cdf (uninterpreted; axioms stated per obligation)')
                dof = dist[3][2][1] if dist[0] == 'adt' and dist[1] == 'StudentsT' else T.var('dof?', 'f')
                return one(('f', T.mk('app', 'Tq', p, dof)))
            if 'Normal' in c:
                self.note('oracle Zq(p) := <Normal as ContinuousCDF>::inverse_cdf (uninterpreted; axioms stated per obligation)')
                return one(('f', T.mk('app', 'Zq', p)))
            # any other distribution: an uninterpreted function of its parameters and p (NOT the documented oracle)
            params = [x[1] if x[0] == 'f' else T.mk('i2f', x[1]) for x in (dist[3] if dist[0] == 'adt' else []) if x[0] in ('f', 'i')]
            name = 'ext_icdf_' + re.sub(r'\W+', '_', c.split(' as ')[0].strip('<'))[-24:]
            self.note('external distribution %s: inverse_cdf uninterpreted' % c)
            return one(('f', T.mk('app', name, p, *params)))
        if c.endswith('as Deref>::deref') and ('NORMAL' in c or 'z_value' in c):
            self.note('lazy_static NORMAL = Normal::new(0., 1.).unwrap()')
            return one(('adt', 'Normal', 0, [('f', T.fconst(0)), ('f', T.fconst(1))]))

        # ---------------- float arithmetic through traits
        mm = re.match(r'<&?%s as (Add|Sub|Mul|Div)(?:<&?%s>)?>::(add|sub|mul|div)$' % (FLOAT_TY, FLOAT_TY), c)
        if mm and d(argv[0])[0] == 'f':
            return one(m.binop(mm.group(1), d(argv[0]), d(argv[1])))
        mm = re.match(r'<&?%s as (Add|Sub|Mul|Div|Rem)(?:<&?%s>)?>::\w+$' % (INT_TY, INT_TY), c)
        if mm:
            return one(m.binop(mm.group(1), d(argv[0]), d(argv[1])))
        if re.match(r'<&?%s as Neg>::neg$' % FLOAT_TY, c):
            return one(('f', T.mk('fneg', d(argv[0])[1])))
        mm = re.match(r'<&?&?[\w:]+(?:<[\w:, ]*>)? as (?:PartialOrd|PartialEq)(?:<&?&?[\w:]+(?:<[\w:, ]*>)?>)?>::(lt|le|gt|ge|eq|ne)$', c)
        if mm:
            a, b = d(argv[0]), d(argv[1])
            if a[0] in ('f', 'i') and b[0] == a[0]:
                return one(m.binop(mm.group(1).capitalize(), a, b))
            # == / != on crate-local ADT values (possibly through && layers, as in a match guard `r == s`): structural when the
            # type's PartialEq is derived (read from the source line the impl points at); a hand-written eq body is inlined
            if mm.group(1) in ('eq', 'ne') and a[0] == 'adt' and b[0] == 'adt' and a[1] == b[1] and isinstance(a[2], int) and isinstance(b[2], int):
                cands = [f for f in m.byname.get('eq', []) if len(f.args) == 2 and (m.impl_self_type(f) == a[1] or tyname(f.args[0][1]) == a[1])]
                def derived(f):
                    k = re.search(r'<impl at (src/[\w/]+\.rs):(\d+):', f.name)
                    if not k:
                        return False
                    m.impl_kind(f)
                    lines = m.srccache.get(k.group(1), [])
                    ln = int(k.group(2)) - 1
                    return ln < len(lines) and 'derive' in lines[ln] and 'PartialEq' in lines[ln]
                if len(cands) == 1 and derived(cands[0]):
                    def struct_eq(x, y):
                        if x[0] == 'f' and y[0] == 'f':
                            return T.mk('feq', x[1], y[1])
                        if x[0] == 'i' and y[0] == 'i':
                            return T.simplify_bool(T.mk('ieq', x[1], y[1]))
                        if x[0] == 'b' and y[0] == 'b':
                            return T.mk('beq', x[1], y[1])
                        if x[0] == 'adt' and y[0] == 'adt' and isinstance(x[2], int) and isinstance(y[2], int):
                            if x[1] != y[1] or x[2] != y[2] or len(x[3]) != len(y[3]):
                                return T.bconst(False)
                            return T.and_(*[struct_eq(d(p), d(q)) for p, q in zip(x[3], y[3])]) if x[3] else T.bconst(True)
                        raise Stuck('structural == on %s' % (x[0],))
                    self.note('derived PartialEq on %s: structural equality (same variant and field-wise ==)' % a[1])
                    e = struct_eq(a, b)
                    return one(('b', e if mm.group(1) == 'eq' else T.not_(e)))
        mm = re.match(r'<&?%s as (?:Ord)>::(min|max)$' % INT_TY, c) or re.match(r'(?:std|core)::cmp::(min|max)$', c) or re.match(r'(?:core::num::<impl usize>|usize)::(min|max)$', c)
        if mm and d(argv[0])[0] == 'i':
            self.note('integer min/max')
            return one(('i', T.mk('i' + mm.group(1), d(argv[0])[1], d(argv[1])[1])))

        # ---------------- float intrinsics (num_traits::Float on F, inherent on f64/f32)
        mm = re.match(r'<%s as (?:num_traits::)?(?:float::)?(?:Float|FloatCore|Zero|One|identities::Zero|identities::One|Bounded|Signed)>::(\w+)$' % FLOAT_TY, c) \
            or re.match(r'(?:std|core)::(?:f64|f32)::<impl (?:f64|f32)>::(\w+)$', c)
        if mm:
            f = mm.group(1)
            x = d(argv[0])[1] if argv else None
            un = {'sqrt': 'fsqrt', 'abs': 'fabs', 'floor': 'ffloor', 'ceil': 'fceil', 'round': 'fround', 'trunc': 'ftrunc', 'ln': 'ln', 'exp': 'exp', 'recip': None, 'neg': 'fneg'}
            if f in un and argv and d(argv[0])[0] == 'f':
                if f == 'recip':
                    return one(('f', T.mk('fdiv', T.fconst(1), x)))
                if f in ('ln', 'exp'):
                    self.note('oracle %s: uninterpreted, strictly increasing, mutually inverse (axioms stated per obligation)' % f)
                else:
                    self.note('float %s' % f)
                return one(('f', T.mk(un[f], x)))
            if f in ('min', 'max') and d(argv[0])[0] == 'f':
                self.note('float min/max')
                return one(('f', T.mk('f' + f, x, d(argv[1])[1])))
            if f == 'powi' and T.is_iconst(d(argv[1])[1]):
                n = T.ival(d(argv[1])[1])
                self.note('float powi with constant exponent (repeated multiplication)')
                r = T.fconst(1) if n == 0 else x
                for _ in range(abs(n) - 1):
                    r = T.mk('fmul', r, x)
                return one(('f', r if n >= 0 else T.mk('fdiv', T.fconst(1), r)))
            if f == 'mul_add':
                self.note('float mul_add as a*b+c')
                return one(('f', T.mk('fadd', T.mk('fmul', x, d(argv[1])[1]), d(argv[2])[1])))
            if f in ('is_nan', 'is_finite', 'is_infinite', 'is_sign_negative', 'is_sign_positive', 'is_normal'):
                self.note('float classification %s' % f)
                return one(('b', T.mk(f.replace('is_', 'is'), x)))
            if f == 'is_zero':
                return one(('b', T.mk('feq', x, T.fconst(0))))
            const0 = {'zero': T.fconst(0), 'one': T.fconst(1), 'infinity': T.finf(), 'neg_infinity': T.fninf(), 'nan': T.fnan(),
                      'max_value': T.mk('fmaxval'), 'min_value': T.mk('fneg', T.mk('fmaxval')), 'epsilon': T.mk('fepsilon'), 'min_positive_value': T.mk('fminpos')}
            if f in const0 and not argv:
                return one(('f', const0[f]))
            if f == 'signum':
                raise Stuck('signum not modelled')
        if re.match(r'<%s as (?:num_traits::)?(?:identities::)?Zero>::is_zero$' % FLOAT_TY, c):
            return one(('b', T.mk('feq', d(argv[0])[1], T.fconst(0))))

        # ---------------- numeric conversions
        mm = re.match(r'<(%s) as (?:num_traits::)?(?:cast::)?NumCast>::from$' % FLOAT_TY, c)
        if mm:
            v = d(argv[0])
            self.note('NumCast::from into a float type: Some(value) (int -> float conversion / float widening; f64 -> f32 narrowing is identity under R)')
            return one(some(('f', v[1] if v[0] == 'f' else T.mk('i2f', v[1]))))
        mm = re.match(r'<&?(%s|%s) as (?:num_traits::)?(?:cast::)?ToPrimitive>::to_f64$' % (FLOAT_TY, INT_TY), c)
        if mm:
            v = d(argv[0])
            self.note('ToPrimitive::to_f64: Some(value)')
            return one(some(('f', v[1] if v[0] == 'f' else T.mk('i2f', v[1]))))
        if re.match(r'<(%s) as (?:From|Into)<(%s)>>::(from|into)$' % ('f64|f32|usize|u64', 'f64|f32|usize|u64|u32|u8'), c):
            v = d(argv[0])
            return one(v)

        # ---------------- thread-local cells: the cell holds an ARBITRARY value left by earlier calls (any history)
        mm = re.match(r'(?:std::thread::)?LocalKey::<(.*)>::with::<', callee)
        if mm:
            key = '_tls:' + (argv[0][1] if argv[0][0] == 'opaque' else 'key')
            loc0 = st['frames'][0]['locals']
            if key not in loc0:
                loc0[key] = m.symbolic_of_type(mm.group(1), 'tls')
                self.note('thread_local cell: initial content arbitrary (whatever earlier calls on this thread left there)')
            return m.push_closure(st, fid, d(argv[1]) if argv[1][0] == 'ref' else argv[1], [('ref', 0, key, ())])
        if re.match(r'(?:std::cell::|core::cell::)?Cell::get$', c) or re.match(r'Cell::get$', c):
            v = d(argv[0])
            if v[0] == 'adt' and v[1] == 'Cell':
                return one(v[3][0])
        if re.match(r'(?:std::cell::|core::cell::)?Cell::(set|replace)$', c):
            r_ = argv[0]
            if r_[0] == 'ref':
                old_v = d(r_)
                m.write(st, (r_[1], r_[2]), list(r_[3]) + [0], argv[1])
                return one(('unit',) if c.endswith('set') else old_v[3][0])
        if re.match(r'(?:std::cell::|core::cell::)?Cell::new$', c):
            return one(('adt', 'Cell', 0, [argv[0]]))
        # ---------------- combinators taking closures: run the closure body
        mm = re.match(r'(Result|Option)::(map_or|map|and_then|unwrap_or_else|map_or_else|ok_or_else|map_err)$', c)
        if mm and argv and d(argv[0])[0] == 'adt' and d(argv[0])[1] == mm.group(1):
            v = d(argv[0])
            ty, meth = mm.groups()
            good = (v[2] == 0) if ty == 'Result' else (v[2] == 1)
            payload = v[3][0] if v[3] else ('unit',)
            clos = lambda a: d(a) if a[0] == 'ref' else a
            is_clos = lambda a: clos(a)[0] == 'adt' and str(clos(a)[1]).startswith('{closure@')
            fnarg = argv[-1] if argv[-1][0] == 'fnitem' else None
            if fnarg is not None and meth in ('map', 'and_then', 'map_err', 'unwrap_or_else', 'map_or'):
                # a function item instead of a closure: apply the named function to the payload
                takes = {'map': good, 'and_then': good, 'map_err': not good, 'unwrap_or_else': not good, 'map_or': good}[meth]
                if not takes:
                    return one(argv[1] if meth == 'map_or' else (payload if meth == 'unwrap_or_else' else v))
                wrapf = {'map': (ok if ty == 'Result' else some), 'map_err': err}.get(meth)
                r = self.dispatch(m, st, fid, fnarg[1], [payload] if not (meth == 'unwrap_or_else' and ty == 'Option') else [])
                if isinstance(r, tuple) and r and r[0] == 'push':
                    return ('push', r[1], r[2], wrapf)
                if isinstance(r, list):
                    return [(cnd, (wrapf(val) if (wrapf and val is not None and val[0] != 'panic') else val)) for cnd, val in r]
                raise Stuck('function item %s as combinator argument' % fnarg[1])
            if meth == 'map_or':
                if not good:
                    return one(argv[1])
                if is_clos(argv[2]):
                    return m.push_closure(st, fid, clos(argv[2]), [payload])
            if meth == 'map' and is_clos(argv[1]):
                if not good:
                    return one(v)
                return m.push_closure(st, fid, clos(argv[1]), [payload], wrap=(ok if ty == 'Result' else some))
            if meth == 'and_then' and is_clos(argv[1]):
                if not good:
                    return one(v)
                return m.push_closure(st, fid, clos(argv[1]), [payload])
            if meth == 'unwrap_or_else' and is_clos(argv[1]):
                if good:
                    return one(payload)
                return m.push_closure(st, fid, clos(argv[1]), [payload] if ty == 'Result' else [])
        # ---------------- Option / Result / Try
        if re.match(r'Option::unwrap$', c) or re.match(r'Option::expect$', c):
            v = d(argv[0])
            if v[0] == 'adt':
                return one(v[3][0]) if v[2] == 1 else [(None, ('panic', 'called `Option::unwrap()` on a `None` value'))]
        if re.match(r'Result::unwrap$', c) or re.match(r'Result::expect$', c):
            v = d(argv[0])
            if v[0] == 'adt':
                return one(v[3][0]) if v[2] == 0 else [(None, ('panic', 'called `Result::unwrap()` on an `Err` value'))]
        if re.match(r'Option::(ok_or_else|ok_or)$', c):
            v = d(argv[0])
            if v[0] == 'adt':
                self.note('Option::ok_or_else: Some(x) -> Ok(x); None -> Err(closure result, not evaluated)')
                return one(ok(v[3][0]) if v[2] == 1 else err(('opaque', 'error-from-closure')))
        if re.match(r'Option::unwrap_or$', c):
            v = d(argv[0])
            if v[0] == 'adt':
                return one(v[3][0] if v[2] == 1 else argv[1])
        if re.match(r'Option::cloned$', c) or re.match(r'Option::copied$', c):
            v = d(argv[0])
            if v[0] == 'adt':
                return one(v if v[2] == 0 else some(d(v[3][0])))
        if re.match(r'<Result<.*> as (?:std::ops::)?Try>::branch$', c) or re.match(r'<Result as Try>::branch$', c):
            v = d(argv[0])
            if v[0] == 'adt':
                return one(('adt', 'ControlFlow', 0, [v[3][0]]) if v[2] == 0 else ('adt', 'ControlFlow', 1, [err(v[3][0])]))
        if 'FromResidual' in c and c.endswith('from_residual'):
            v = d(argv[0])
            if v[0] == 'adt' and v[1] == 'Result':
                e = v[3][0]
                # `?` converts the error with From; IntervalError -> CIError::IntervalError
                if e[0] == 'adt' and e[1] == 'IntervalError':
                    e = ('adt', 'CIError', VARIANTS['CIError'].index('IntervalError'), [e])
                return one(err(e))
        if re.match(r'Result::map_err$', c):
            v = d(argv[0])
            if v[0] == 'adt':
                if v[2] == 0:
                    return one(v)
                e = v[3][0]
                if e[0] == 'adt' and e[1] == 'IntervalError':
                    self.note('Result::map_err(|e| e.into()): IntervalError -> CIError::IntervalError')
                    e = ('adt', 'CIError', VARIANTS['CIError'].index('IntervalError'), [e])
                return one(err(e))
        if re.match(r'<IntervalError as Into<(?:error::)?CIError>>::into$', c) or re.match(r'<(?:error::)?CIError as From<IntervalError>>::from$', c):
            return one(('adt', 'CIError', VARIANTS['CIError'].index('IntervalError'), [d(argv[0])]))
        if re.match(r'<.* as Clone>::clone$', c) and '<impl at' not in callee:
            v = d(argv[0])
            if v[0] in ('f', 'i', 'b'):
                return one(v)
        if re.match(r'<.* as Into<.*>>::into$', c):
            # blanket Into -> crate-local From impl with matching source/target
            mm = re.match(r'<(.*) as Into<(.*)>>::into$', strip_keep(callee))
            if mm:
                src, dst = mm.group(1), mm.group(2)
                cands = [f for f in m.byname.get('from', []) if f.args and f.args[0][1].replace(' ', '').replace('interval::', '') == src.replace(' ', '').replace('interval::', '')
                         and f.ret.replace(' ', '') == dst.replace(' ', '')]
                if len(cands) == 1:
                    return ('push', cands[0], argv)
                if not cands:
                    # generic impl `From<X<T>> for Y<T>` instantiated at a concrete element type
                    nz = lambda t: re.sub(r'\b\w+::', '', t.replace(' ', ''))
                    gen = []
                    for f in m.byname.get('from', []):
                        if not f.args or not re.search(r'\bT\b', f.args[0][1]):
                            continue
                        pa = re.escape(nz(f.args[0][1])).replace('T', 'T')
                        pa = re.sub(r'\bT\b', r'(?P<t>\\w+)', pa, count=1)
                        pa = re.sub(r'\bT\b', r'(?P=t)', pa)
                        mt = re.fullmatch(pa, nz(src))
                        if mt and re.sub(r'\bT\b', mt.group('t'), nz(f.ret)) == nz(dst):
                            gen.append(f)
                    if len(gen) == 1:
                        return ('push', gen[0], argv)
                v = d(argv[0])
                norm = lambda t: re.sub(r'\b\w+::', '', t.replace(' ', ''))
                if re.match(r'^[A-Z]\w?$', src) and v[0] == 'f' and not re.match(r'^(f64|f32|[A-Z])$', norm(dst)):
                    # generic source type instantiated by the caller with a float: the crate-local `From<T>` impl producing the target type
                    cands = [f for f in m.byname.get('from', []) if f.args and re.match(r'^[A-Z]$', f.args[0][1].strip()) and norm(f.ret) == norm(dst)]
                    if len(cands) == 1:
                        self.note('Into::into on a generic source instantiated with the element type: crate-local From<T> for %s' % norm(dst))
                        return ('push', cands[0], argv)
                    raise Stuck('Into::into from a generic source into %s: no unique crate-local From impl' % dst)
            v = d(argv[0])
            if v[0] in ('f', 'i'):
                return one(v)
        if re.match(r'(?:core::fmt::|std::fmt::)?Arguments(?:<.*?>)?::(from_str|new_const|new_v1|new)', c) or c.startswith('Arguments::'):
            return one(('opaque', 'fmt::Arguments'))
        if c.startswith(('core::panicking::', 'std::rt::begin_panic', 'std::rt::panic_fmt', 'core::panicking::panic_fmt')):
            return [(None, ('panic', c))]

        # ---------------- crate-local bodies
        r = self.local(m, st, callee, c, argv)
        if r is not None:
            return r
        # ---------------- external pure numeric functions (e.g. other statrs distributions): uninterpreted application.
        # Sound for validity (the obligation must then hold for every value of the function); a refutation is replayed natively.
        fr = st['frames'][fid]['fn']
        if re.search(r'statrs|distribution::', callee) or re.search(r'::(cdf|pdf|sf|inverse_cdf|ln_pdf|mean|variance|std_dev)$', c):
            flat = []
            for a in argv:
                v = d(a)
                if v[0] in ('f', 'i'):
                    flat.append(v[1] if v[0] == 'f' else T.mk('i2f', v[1]))
                elif v[0] == 'adt':
                    flat += [x[1] if x[0] == 'f' else T.mk('i2f', x[1]) for x in v[3] if x[0] in ('f', 'i')]
            name = 'ext_' + re.sub(r'\W+', '_', c)[-40:]
            if c.endswith('::new'):
                self.note('external constructor %s: Ok(opaque value carrying its arguments)' % c)
                return one(ok(('adt', 'ExtDist_' + re.sub(r'\W+', '_', c.split('::')[-2]), 0, [('f', x) for x in flat])))
            self.note('external function %s: uninterpreted' % c)
            return one(('f', T.mk('app', name, *flat)))
        return None

    def local(self, m, st, callee, c, argv):
        nargs = len(argv)
        mm = re.match(r'<(.+?) as (.+?)>::(\w+)$', c)
        if mm:
            ty, trait, meth = mm.groups()
            cands = m.find_fn(meth, recv_ty=ty, trait=True, nargs=nargs, argv=[m.deref(st, a) if a[0] == 'ref' else a for a in argv])
            cands = [f for f in cands if '<impl at' in f.name]
            # operator traits overloaded on the right-hand side type (AddAssign<T> vs AddAssign<Self>)
            if len(cands) > 1:
                rhs = re.search(r'<(.*)>$', trait)
                c2 = []
                for f in cands:
                    ok_ = True
                    for (an, at), v in zip(f.args, argv):
                        vv = v
                        at_n = tyname(at)
                        if not at.strip().startswith('&'):
                            if vv[0] == 'f' and not (re.fullmatch(r'[A-Z]\w?', at_n) or at_n in ('f64', 'f32')):
                                ok_ = False
                            if vv[0] == 'adt' and vv[1] != 'tuple' and at_n != vv[1] and at_n != 'Self':
                                ok_ = False
                    if ok_:
                        c2.append(f)
                cands = c2 or cands
            if len(cands) == 1:
                return ('push', cands[0], argv)
            if len(cands) > 1:
                raise Stuck('ambiguous trait call %s -> %s' % (callee, [f.name for f in cands][:4]))
            return None
        parts = c.split('::')
        meth = parts[-1]
        if len(parts) == 1 or re.fullmatch(r'[a-z_0-9]+', parts[-2] or ''):
            cands = m.find_fn(meth, nargs=nargs, free=True)
            if len(cands) == 1:
                return ('push', cands[0], argv)
            if len(cands) > 1:
                mod = parts[-2] if len(parts) > 1 else None
                c2 = [f for f in cands if mod and (mod + '::' + meth) in f.name]
                if len(c2) == 1:
                    return ('push', c2[0], argv)
            if cands:
                raise Stuck('ambiguous free fn %s' % callee)
            return None
        ty = parts[-2]
        cands = m.find_fn(meth, recv_ty=ty, trait=False, nargs=nargs, argv=[m.deref(st, a) if a[0] == 'ref' else a for a in argv])
        cands = [f for f in cands if '<impl at' in f.name]
        if len(cands) > 1:
            # prefer impl blocks whose self type matches exactly
            c2 = [f for f in cands if (f.args and tyname(f.args[0][1]) == ty) or tyname(f.ret) == ty]
            cands = c2 or cands
        if len(cands) > 1:
            inh = [f for f in cands if m.impl_kind(f) == 'inherent']
            cands = inh or cands
        if len(cands) == 1:
            return ('push', cands[0], argv)
        if len(cands) > 1:
            raise Stuck('ambiguous method %s -> %s' % (callee, [f.name for f in cands][:4]))
        return None


def strip_keep(callee):
    """strip turbofish generics (::<...>) but keep type arguments inside <A as B<C>>"""
    return re.sub(r'::<(?!impl )[^<>]*(?:<[^<>]*>[^<>]*)*>', '', callee)
