"""Translator validation (Serval-style): the repository's own pinned inputs are pushed through (a) the natively built
crate (native driver) and (b) the terms extracted from MIR, evaluated by z3 bit-precisely at F(11,53) with statrs' value
substituted for the oracle. The two must be BIT-IDENTICAL; a mismatch means the MIR interpreter (or a call model) is
wrong and makes the run inconclusive."""
import re, struct
from . import engine as E, term as T, mir, smt
from vlib import native

DATA100 = [82., 94., 68., 6., 39., 80., 10., 97., 34., 66., 62., 7., 39., 68., 93., 64., 10., 74., 15., 34., 4., 48., 88., 94., 17., 99., 81., 37., 68., 66., 40., 23., 67., 72., 63.,
           71., 18., 51., 65., 87., 12., 44., 89., 67., 28., 86., 62., 22., 90., 18., 50., 25., 98., 24., 61., 62., 86., 100., 96., 27., 36., 82., 90., 55., 26., 38., 97., 73., 16.,
           49., 23., 26., 55., 26., 3., 23., 47., 27., 58., 27., 97., 32., 29., 56., 28., 23., 37., 72., 62., 77., 63., 100., 40., 84., 77., 39., 71., 61., 17., 77.]
README30 = [10.6, 6.6, 26.7, 0.4, 5.7, 0.3, 1.1, 5.0, 8.4, 1.4, 15.1, 0.3, 20.4, 1.2, 28.4, 10.7, 0.4, 10.1, 4.5, 7.1, 4.3, 37.4, 0.9, 10.1, 12.6, 21.7, 21.9, 2.0, 8.4, 9.3]


def b2i(x):
    return struct.unpack('<Q', struct.pack('<d', float(x)))[0]


def fb(x):
    return T.mk('fbits', b2i(x))


def eval_fp(m, ctx, pcs, outs):
    """assert the path condition, ask for the values of `outs` at F(11,53). -> list of bit patterns or None if the path is infeasible"""
    em = smt.Emitter(('F', 11, 53))
    lines = []
    asserts = [em.emit(c) for c in pcs]
    names = []
    for i, o in enumerate(outs):
        s_ = em.emit(o)
        nm = 'out%d' % i
        names.append(nm)
        lines.append('(declare-const %s (_ FloatingPoint 11 53))' % nm)
        asserts.append('(= %s %s)' % (nm, s_))
    text = em.script(asserts, extra_decls=lines).replace('(check-sat)', '(check-sat)\n(get-value (%s))' % ' '.join('(fp.to_ieee_bv %s)' % n for n in names) if False else '(check-sat)\n(get-value (%s))' % ' '.join(names))
    verdict, out, dt = smt.run_solver(text, 'z3-new', 120, ctx.seed)
    ctx.solver_time += dt
    if verdict != 'sat':
        return None
    res = []
    for mm in re.finditer(r'\(fp #b([01]) #b([01]+) #x([0-9a-f]+)\)|\(_ ([+-])(zero|oo) 11 53\)|\(_ NaN 11 53\)', out):
        if mm.group(1) is not None:
            res.append((int(mm.group(1)) << 63) | (int(mm.group(2), 2) << 52) | int(mm.group(3), 16))
        elif mm.group(5) == 'zero':
            res.append(0 if mm.group(4) == '+' else 1 << 63)
        elif mm.group(5) == 'oo':
            res.append((0x7ff << 52) | (0 if mm.group(4) == '+' else 1 << 63))
        else:
            res.append(0x7ff8 << 48)
    if len(res) != len(outs):
        return None
    return res


def run(ctx, m):
    drv = native.Driver.get(ctx)
    n_ok = n_all = 0
    mism = []
    # ---- ci_wilson
    f = m.fn('ci_wilson')
    for (n, k, kind, L) in [(500, 421, 0, 0.95), (20, 10, 0, 0.95), (30, 20, 0, 0.95), (10000, 89, 0, 0.95), (10000, 89, 2, 0.95), (500, 421, 1, 0.975), (15, 8, 0, 0.8)]:
        q = float(native.quantile_of(kind, L))
        z = native.unbits(drv.run(['zq %s' % native.bits(q)])[0])
        nat = native.parse_result(drv.run(['wilson %d %d %d %s' % (n, k, kind, native.bits(L))])[0])
        conf = ('adt', 'Confidence', kind, [('f', fb(L))])
        res = m.run(f, [conf, ('i', T.iconst(n)), ('i', T.iconst(k))])
        got = None
        for r in res:
            if r.kind == 'return' and E.is_ok(r.value):
                variant, bounds = E.interval_parts(r.value)
                sub = lambda t: T.walk(t, lambda op, args, old: fb(z) if op == 'app' else T.mk(op, *args))
                got = eval_fp(m, ctx, [sub(c) for c in r.pc], [sub(b) for b in bounds])
                if got is not None:
                    break
        n_all += 1
        want = [b2i(x) for x in nat[2]] if nat[0] == 'ok' else None
        if got is not None and want is not None and got == want:
            n_ok += 1
        else:
            mism.append('ci_wilson(%d,%d,kind %d,%r): native %s, MIR terms at F(11,53) %s' % (n, k, kind, L, nat, got and [hex(g) for g in got]))
    # ---- Arithmetic::ci_mean on states built natively from pinned data
    fa = m.fn('ci_mean', 'Arithmetic', 'inherent')
    for data, kind, L in [(DATA100, 0, 0.95), (DATA100, 1, 0.975), (README30, 0, 0.95), (README30, 2, 0.9), ([1., 2., 3., 4., 5., 6., 7., 8., 9., 10.], 0, 0.95)]:
        st = drv.run(['arith_state f64 ' + ' '.join(native.bits(x) for x in data)])[0].split()
        s, c, q, qc = [native.unbits(x) for x in st[:4]]
        n = int(st[4])
        p = float(native.quantile_of(kind, L))
        tq = native.unbits(drv.run(['tq %s %s' % (native.bits(p), native.bits(float(n - 1)))])[0])
        nat = native.parse_result(drv.run(['arith_ci_mean f64 %s %s %s %s %d %d %s' % (st[0], st[1], st[2], st[3], n, kind, native.bits(L))])[0])
        state = ('adt', 'Arithmetic', 0, [('adt', 'KahanSum', 0, [('f', fb(s)), ('f', fb(c))]), ('adt', 'KahanSum', 0, [('f', fb(q)), ('f', fb(qc))]), ('i', T.iconst(n))])
        conf = ('adt', 'Confidence', kind, [('f', fb(L))])
        ref, extra = E.self_ref(state)
        res = m.run(fa, [ref, conf], extra)
        got = None
        for r in res:
            if r.kind == 'return' and E.is_ok(r.value):
                variant, bounds = E.interval_parts(r.value)
                sub = lambda t: T.walk(t, lambda op, args, old: fb(tq) if op == 'app' else T.mk(op, *args))
                got = eval_fp(m, ctx, [sub(c_) for c_ in r.pc], [sub(b) for b in bounds])
                if got is not None:
                    break
        n_all += 1
        want = [b2i(x) for x in nat[2]] if nat[0] == 'ok' else None
        if got is not None and want is not None and got == want:
            n_ok += 1
        else:
            mism.append('Arithmetic::ci_mean(n=%d, kind %d, %r): native %s, MIR terms at F(11,53) %s' % (n, kind, L, nat, got and [hex(g) for g in got]))
    ctx.extra['translator_validation'] = {'inputs': n_all, 'bit_identical': n_ok, 'mismatches': mism[:5]}
    if n_ok == n_all:
        ctx.record('translator-validation', 'M', 'held', bound='%d pinned inputs, bit-identical at F(11,53)' % n_all,
                   sample={'obligation': 'native crate vs MIR-extracted terms evaluated by z3 at F(11,53)', 'inputs': n_all, 'bit_identical': n_ok})
    else:
        ctx.record('translator-validation', 'M', 'inconclusive', detail='; '.join(mism)[:600])
        ctx.inconclusive.append('translator validation: %d of %d pinned inputs bit-identical: %s' % (n_ok, n_all, '; '.join(mism)[:400]))
