"""./check <id> --replay <path>: re-run a recorded counterexample against the CURRENT /repo tree.
  *.rs   : Kani concrete-playback unit test -> appended to the harness module of a fresh scratch copy, run natively
  *.json : native driver command recorded by an engine-M replay
  *.txt  : compiler diagnostics of a feature set that did not build (re-runs the build)"""
import os, re, sys
from . import core


def run(pid, path):
    if path.endswith('.json'):
        from . import native
        return native.rerun(pid, path)
    txt = open(path).read()
    if path.endswith('.txt'):
        m = re.search(r'#\s+(cargo build .*)', txt)
        sc = core.Scratch(harness_dirs=False, tag='.rp')
        rc, out, dt = core.sh(m.group(1).split(), cwd=sc.dir, timeout=900)
        print(out[-3000:])
        print('build %s' % ('still FAILS' if rc else 'succeeds now'))
        return 1 if rc else 0
    m = re.search(r'// harness-file: (\S+)', txt)
    feats = 'std,approx,serde' if pid == 'C20' else None
    sc = core.Scratch(features=feats, tag='.rp')
    target = None
    for name, p in sc.harness_files.items():
        if m and os.path.basename(p) == m.group(1):
            target = p
    if target is None:
        print('cannot locate harness file for', path)
        return 2
    tests = re.findall(r'#\[test\]\nfn (\w+)\(\)', txt)
    body = txt[txt.index('#[test]'):]
    with open(target, 'a') as fh:
        fh.write('\n' + body + '\n')
    cmd = ['cargo', 'kani', 'playback', '-Z', 'concrete-playback']
    if feats:
        cmd += ['--no-default-features', '--features', feats]
    cmd += ['--'] + tests[:1]
    rc, out, dt = core.sh(cmd, cwd=sc.dir, timeout=1500)
    print(out[-2500:])
    failed = re.findall(r'test \S+ \.\.\. FAILED', out)
    print('replay %s on the current tree' % ('FAILS (violation reproduces)' if failed else 'passes'))
    return 1 if failed else 0
