"""Native replay of engine-M counterexamples and translator validation.

A cfg(verif_replay) driver (native/*.rs) is installed into the scratch copy of /repo and built with the ordinary
toolchain; it runs the REAL crate code on concrete inputs. The Python side evaluates the property's reference formula
in high-precision decimal arithmetic on the same inputs (critical values are taken from statrs directly through the
driver, not through the crate) and compares. Only a reproduced deviation becomes a VIOLATION.
"""
import math
import json, os, re, struct, shutil
from decimal import Decimal, getcontext
from fractions import Fraction
from . import core

getcontext().prec = 60
NATIVE = os.path.join(core.VERIF, 'native')


def bits(x):
    return '0x%016x' % struct.unpack('<Q', struct.pack('<d', float(x)))[0]


def unbits(s):
    return struct.unpack('<d', struct.pack('<Q', int(s, 16)))[0]


class Driver:
    _inst = {}

    @classmethod
    def get(cls, ctx):
        sc = ctx.scratch(None)
        if sc.dir not in cls._inst:
            cls._inst[sc.dir] = Driver(ctx, sc)
        return cls._inst[sc.dir]

    def __init__(self, ctx, sc):
        self.ctx, self.sc = ctx, sc
        src = os.path.join(sc.dir, 'src')
        os.makedirs(os.path.join(src, 'bin'), exist_ok=True)
        shutil.copy(os.path.join(NATIVE, 'verif_replay.rs'), os.path.join(src, 'verif_replay.rs'))
        shutil.copy(os.path.join(NATIVE, 'bin_verif_replay.rs'), os.path.join(src, 'bin', 'verif_replay.rs'))
        for mod in ('mean', 'utils', 'comparison'):
            os.makedirs(os.path.join(src, mod), exist_ok=True)
            shutil.copy(os.path.join(NATIVE, '%s_verif_raw.rs' % mod), os.path.join(src, mod, 'verif_raw.rs'))
            with open(os.path.join(src, mod + '.rs'), 'a') as fh:
                fh.write('\n#[cfg(verif_replay)]\npub mod verif_raw;\n')
        with open(os.path.join(src, 'lib.rs'), 'a') as fh:
            fh.write('\n#[cfg(verif_replay)]\npub mod verif_replay;\n')
        env = dict(core.ENV)
        env['RUSTFLAGS'] = '--cfg verif_replay'
        env['CARGO_TARGET_DIR'] = os.path.join(sc.dir, 'target-native')
        rc, out, dt = core.sh(['cargo', 'build', '--offline', '--bin', 'verif_replay'], cwd=sc.dir, timeout=1200, env=env)
        self.ok = rc == 0
        self.exe = os.path.join(sc.dir, 'target-native', 'debug', 'verif_replay')
        self.build_log = out[-2000:]
        ctx.extra['native_driver_build_s'] = round(dt, 1)

    def run(self, cmds):
        if not self.ok:
            raise RuntimeError('native driver did not build: ' + self.build_log)
        rc, out, dt = core.sh([self.exe], input='\n'.join(cmds) + '\n', timeout=120)
        lines = out.split('\n')
        return [l.strip() for l in lines[:len(cmds)]]


# ----------------------------------------------------------------------------------------------- helpers
def parse_result(line):
    t = line.split()
    if not t:
        return ('none',)
    if t[0] == 'ok':
        if t[1] == 'two':
            return ('ok', 'two', [unbits(t[2]), unbits(t[3])]) if t[2].startswith('0x') else ('ok', 'two', [int(t[2]), int(t[3])])
        return ('ok', t[1], [unbits(t[2])]) if t[2].startswith('0x') else ('ok', t[1], [int(t[2])])
    if t[0] == 'err':
        return ('err', t[1])
    return ('panic', ' '.join(t[1:]))


def D(x):
    return Decimal(x) if not isinstance(x, float) else Decimal(repr(x)) if False else Decimal(Fraction(x).numerator) / Decimal(Fraction(x).denominator)


def model_float(model, name, default):
    from mirsmt import smt
    v = model.get(name)
    if v is None:
        return default
    try:
        return float(smt.smt_real_to_fraction(v))
    except Exception:
        m = re.search(r'-?\d+\.\d+', v)
        return float(m.group(0)) if m else default


def save(ctx, name, payload):
    d = os.path.join(core.REPLAY_DIR, ctx.pid)
    os.makedirs(d, exist_ok=True)
    path = os.path.join(d, re.sub(r'[^\w.-]', '_', name) + '.json')
    with open(path, 'w') as fh:
        json.dump(payload, fh, indent=1)
    return path


KIND = ['two', 'upper', 'lower']


def quantile_of(kind, L):
    return (1 + Fraction(L)) / 2 if kind == 0 else Fraction(L)


def close(a, b, scale, rel=1e-6):
    if a != a or b != b:
        return (a != a) == (b != b)
    if a in (float('inf'), float('-inf')) or b in (float('inf'), float('-inf')):
        return a == b
    return abs(a - b) <= rel * max(abs(scale), 1e-300) + 1e-300


# ----------------------------------------------------------------------------------------------- arithmetic mean
def spec_arith(drv, s, sc, q, qc, n, kind, L):
    """Reference: xbar -/+ c * sd / sqrt(n) in 60-digit decimal arithmetic; returns (variant, [bounds], info)."""
    S, Q = D(s) + D(sc), D(q) + D(qc)
    nn = Decimal(n)
    mean = S / nn
    var = (Q - S * S / nn) / (nn - 1)
    if var < 0:
        return None
    sd = var.sqrt()
    p = float(quantile_of(kind, L))
    dof = n - 1
    c = unbits(drv.run(['tq %s %s' % (bits(p), bits(float(dof)))] if dof < 100000 else ['zq %s' % bits(p)])[0])
    span = D(c) * sd / nn.sqrt()
    lo, hi = float(mean - span), float(mean + span)
    kappa = float((abs(Q) + S * S / nn) / max(abs(Q - S * S / nn), Decimal('1e-9999')))
    info = {'mean': float(mean), 'sd': float(sd), 'c': c, 'span': float(span), 'kappa': kappa}
    if kind == 0:
        return ('two', [lo, hi], info) if lo <= hi else ('err', [], info)
    return ('upper', [lo], info) if kind == 1 else ('lower', [hi], info)


def arith_inputs(model, suffix=''):
    n = max(2, int(round(model_float(model, 'n' + suffix, 12))))
    s = model_float(model, 's' + suffix, 53.5 * n)
    sc = model_float(model, 'sc' + suffix, 0.0)
    q = model_float(model, 'q' + suffix, None)
    qc = model_float(model, 'qc' + suffix, 0.0)
    if q is None or (q + qc) - (s + sc) ** 2 / n <= 0:
        q = (s + sc) ** 2 / n * 1.37 + 3.0
        qc = 0.0
    return s, sc, q, qc, n


def phi(z):
    import math
    return 0.5 * (1.0 + math.erf(z / math.sqrt(2.0)))


def battery_conf(model, extreme=False):
    L = model_float(model, 'L', 0.95)
    L = min(max(L, 0.0005), 0.9995)
    extra = []
    for zname in ('Z', 'Z2'):
        if zname in (model or {}):
            z = model_float(model, zname, 1.96)
            if -8 < z < 8:
                p = min(max(phi(z), 1e-9), 1 - 1e-9)
                extra += [(1, p), (2, p)]
                if z > 0:
                    extra.append((0, min(max(2 * p - 1, 1e-9), 1 - 1e-9)))
    if extreme:
        extra += [(0, 0.999), (0, 0.9999), (1, 0.9995), (2, 0.9995), (1, 0.99995), (2, 0.99995)]
    k = model.get('kind')
    ks = []
    try:
        ks = [int(round(model_float(model, 'kind', 0)))]
    except Exception:
        pass
    out = []
    for kk in ks + [0, 1, 2]:
        for ll in (L, 0.95, 0.3, 0.6):
            if (kk, ll) not in out and 0 <= kk <= 2:
                out.append((kk, ll))
    return extra + out


def replay_arith(ctx, model, what, prefix='arith', transform=None):
    """Confirm a refuted arithmetic-CI obligation: native ci_mean on the model's state (and a small battery around it)
    against the reference formula."""
    drv = Driver.get(ctx)
    s, sc, q, qc, n = arith_inputs(model)
    states = [(s, sc, q, qc, n)]
    # a large-count state on the normal-quantile side of the switch, a tight (ill-conditioned but decidable) one, and a pinned one
    states.append((5.5 * 150000, 0.0, 5.5 * 5.5 * 150000 + 150000 * 2.0, 0.0, 150000))
    states.append((5000.0 * 70000, 0.0, 5000.0 ** 2 * 70000 + 70000 * 3.6e-5, 0.0, 70000))
    states.append((5367.0, 0.0, 366209.0, 0.0, 100))
    # exactly constant samples (variance exactly zero in floating point): [2,2,2], five zeros, four times -7.5
    states += [(6.0, 0.0, 12.0, 0.0, 3), (0.0, 0.0, 0.0, 0.0, 5), (-30.0, 0.0, 225.0, 0.0, 4)]
    for st in states:
        for kind, L in battery_conf(model):
            cmd = '%s_ci_mean f64 %s %s %s %s %d %d %s' % (prefix, bits(st[0]), bits(st[1]), bits(st[2]), bits(st[3]), st[4], kind, bits(L))
            got = parse_result(drv.run([cmd])[0])
            exp = spec_arith(drv, st[0], st[1], st[2], st[3], st[4], kind, L)
            if exp is None:
                continue
            if transform:
                exp = transform(exp)
            dev = deviation(got, exp)
            if dev:
                path = save(ctx, what, {'property': ctx.pid, 'what': what, 'command': cmd, 'native': got, 'reference': exp[:2], 'reference_detail': exp[2], 'deviation': dev,
                                        'how': 'native/verif_replay driver built from the current /repo tree; reference = xbar -/+ c*s/sqrt(n) in 60-digit decimals, c from statrs directly'})
                return True, path, dev
    return False, None, 'native results agree with the reference on the model-derived inputs'


def deviation(got, exp):
    """None if the native outcome matches the reference within a conditioning-aware tolerance."""
    variant, bounds, info = exp
    tol = max(1e-6, 64 * info.get('kappa', 1.0) * 2.0 ** -53)
    exact_zero = info.get('sd') == 0.0       # an exactly constant sample: nothing cancels, every quantity is exact
    if tol > 0.05 and not exact_zero:
        return None            # too ill-conditioned to decide: not a confirmation
    if exact_zero:
        tol = 1e-6
    if variant == 'err':
        return None if got[0] in ('err',) else None
    if got[0] != 'ok':
        return 'native outcome %s, reference is an %s interval' % (got, variant)
    if got[1] != variant:
        return 'native kind %s, reference kind %s' % (got[1], variant)
    scale = abs(info.get('span', 0.0)) or abs(info.get('mean', 1.0))
    for g, e in zip(got[2], bounds):
        if not close(g, e, scale, tol):
            return 'native bound %r vs reference %r (half-width %r, tolerance %.1e of it)' % (g, e, info.get('span'), tol)
    return None


# ----------------------------------------------------------------------------------------------- wrappers (geometric / harmonic)
def replay_wrapper(ctx, which, kind, model=None):
    import math
    drv = Driver.get(ctx)
    # log-space / reciprocal-space states: the solver model's state (if any), then a pinned positive sample, then large magnitudes
    data = [10.6, 6.6, 26.7, 0.4, 5.7, 0.3, 1.1, 5.0, 8.4, 1.4, 15.1, 0.3, 20.4]
    states = []
    if model:
        states.append(arith_inputs(model))
    for scale in (1.0, 1e17, 1e-300):
        tr = [math.log(x * scale) for x in data] if which == 'geometric' else [1.0 / (x * scale) for x in data]
        states.append((sum(tr), 0.0, sum(x * x for x in tr), 0.0, len(tr)))
    # (a) data route: power-of-two scalings of positive data must still be accepted, and the point estimate lies in the interval
    ok_, path_, note_ = replay_point_estimate(ctx, 'C05_%s_data_route' % which, [which])
    if ok_:
        return ok_, path_, note_
    # (b) statistics of a state holding more than 2^31 observations (counts are usize)
    big = 3 * 2 ** 30
    m0, v0 = (1.25, 0.04)
    st_big = (m0 * big, 0.0, (v0 + m0 * m0) * big, 0.0, big)
    out = drv.run(['%s_stats f64 %s %s %s %s %d' % (which, bits(st_big[0]), bits(st_big[1]), bits(st_big[2]), bits(st_big[3]), big)])[0].split()
    if len(out) == 2 and out[0].startswith('0x'):
        gm, gs = unbits(out[0]), unbits(out[1])
        sd_ = math.sqrt(v0 * big / (big - 1)) / math.sqrt(big)
        want_m = math.exp(m0) if which == 'geometric' else 1.0 / m0
        want_s = want_m * sd_ if which == 'geometric' else want_m * want_m * sd_
        if not (close(gm, want_m, want_m, 1e-9) and close(gs, want_s, want_s, 1e-6)):
            path = save(ctx, 'C05_%s_stats_large_count' % which, {'property': ctx.pid, 'command': '%s_stats on a state with %d observations' % (which, big), 'native': [gm, gs], 'reference': [want_m, want_s],
                                                                 'deviation': 'sample_mean / sample_sem of a state with more than 2^31 observations'})
            return True, path, 'large-count statistics %r vs %r' % ([gm, gs], [want_m, want_s])
    for (s, sc, q, qc, n) in states:
        if not all(math.isfinite(v) for v in (s, sc, q, qc)):
            continue
        for k, L in [(kind, 0.9), (kind, 0.6), (0, 0.9), (1, 0.9), (2, 0.9), (0, 0.6)]:
            cmd = '%s_ci_mean f64 %s %s %s %s %d %d %s' % (which, bits(s), bits(sc), bits(q), bits(qc), n, k, bits(L))
            got = parse_result(drv.run([cmd])[0])
            fk = k if which == 'geometric' else {0: 0, 1: 2, 2: 1}[k]
            base = spec_arith(drv, s, sc, q, qc, n, fk, L)
            if base is None or base[0] == 'err':
                continue
            if which == 'geometric':
                try:
                    exp = (KIND[k], [math.exp(b) for b in base[1]], base[2])
                except OverflowError:
                    continue
            else:
                bs = base[1]
                if any(b <= 0 for b in bs):
                    continue
                exp = (KIND[k], [1.0 / bs[1], 1.0 / bs[0]] if k == 0 else [1.0 / bs[0]], base[2])
            info = dict(exp[2])
            info['span'] = abs(exp[1][-1] - exp[1][0]) / 2 if len(exp[1]) == 2 else abs(exp[1][0]) * 0.1
            dev = deviation(got, (exp[0], exp[1], info))
            if dev:
                path = save(ctx, 'C05_%s_%s' % (which, KIND[k]), {'property': ctx.pid, 'command': cmd, 'native': got, 'reference': exp[:2], 'deviation': dev})
                return True, path, dev
    return False, None, 'native results agree with the reference'


# ----------------------------------------------------------------------------------------------- proportions
def spec_wilson(drv, n, k, kind, L):
    p = float(quantile_of(kind, L))
    z = D(unbits(drv.run(['zq %s' % bits(p)])[0]))
    nn, kk = Decimal(n), Decimal(k)
    z2 = z * z
    mean = (kk + z2 / 2) / (nn + z2)
    span = z / (nn + z2) * (kk * (nn - kk) / nn + z2 / 4).sqrt()
    lo, hi = float(mean - span), float(mean + span)
    info = {'span': float(abs(span)) or 1e-3, 'z': float(z), 'kappa': 1.0}
    return ('two', [lo, hi] if kind == 0 else [lo, 1.0] if kind == 1 else [0.0, hi], info)


def spec_wald(drv, n, k, kind, L):
    p = float(quantile_of(kind, L))
    z = D(unbits(drv.run(['zq %s' % bits(p)])[0]))
    nn, kk = Decimal(n), Decimal(k)
    ph = kk / nn
    span = z * (ph * (1 - ph) / nn).sqrt()
    lo, hi = float(ph - span), float(ph + span)
    info = {'span': float(abs(span)) or 1e-3, 'kappa': 1.0}
    return ('two', [lo, hi] if kind == 0 else [lo, 1.0] if kind == 1 else [0.0, hi], info)


def replay_proportion(ctx, model, what, fam='wilson'):
    drv = Driver.get(ctx)
    n = max(4, int(round(model_float(model, 'n', 400))))
    k = int(round(model_float(model, 'k', 120)))
    lo_dom = 2 if fam == 'wilson' else 10
    cases = []
    if lo_dom <= k <= n - lo_dom:
        cases.append((n, k))
    cases += [(400, 120), (500, 421), (10000, 89), (36037, 10), (20, 10), (100000, 3), (250000, 2), (300, 3), (40, 37), (1000, 997), (1000, 10), (400, 390), (5000, 10), (200, 10), (200, 190), (100, 90)]
    cmdname = 'wilson' if fam == 'wilson' else 'z_normal'
    spec = spec_wilson if fam == 'wilson' else spec_wald
    for (nn, kk) in cases:
        if not (lo_dom <= kk <= nn - lo_dom):
            continue
        for kind, L in battery_conf(model, extreme=True) + [(1, 0.05), (2, 0.05), (1, 0.2)]:
            cmd = '%s %d %d %d %s' % (cmdname, nn, kk, kind, bits(L))
            got = parse_result(drv.run([cmd])[0])
            exp = spec(drv, nn, kk, kind, L)
            if exp[1][0] > exp[1][1]:
                continue
            dev = deviation(got, exp)
            if dev:
                path = save(ctx, what, {'property': ctx.pid, 'what': what, 'command': cmd, 'native': got, 'reference': exp[:2], 'deviation': dev,
                                        'how': 'reference = Wilson/Wald formula in 60-digit decimals with z from statrs directly'})
                return True, path, dev
    return False, None, 'native results agree with the reference on the model-derived inputs'


def replay_ratio(ctx, n, k):
    drv = Driver.get(ctx)
    rate = k / n
    L = 0.95
    a = drv.run(['wilson_ratio %d %s 0 %s' % (n, bits(rate), bits(L)), 'wilson %d %d 0 %s' % (n, k, bits(L))])
    if a[0] != a[1]:
        path = save(ctx, 'C02_ratio_n%d_k%d' % (n, k), {'property': ctx.pid, 'commands': ['wilson_ratio %d %r' % (n, rate), 'wilson %d %d' % (n, k)], 'native': a,
                                                         'deviation': 'ci_wilson_ratio(conf, n, k/n) differs from ci_wilson(conf, n, k)'})
        return True, path, 'ratio front end returns %s, counts give %s' % (a[0], a[1])
    return False, None, 'ratio front end agrees with the counts for n=%d k=%d' % (n, k)


# ----------------------------------------------------------------------------------------------- unpaired
def spec_unpaired(drv, A, B, kind, L):
    (sa, sca, qa, qca, na), (sb, scb, qb, qcb, nb) = A, B
    Sa, Qa, Sb, Qb = D(sa) + D(sca), D(qa) + D(qca), D(sb) + D(scb), D(qb) + D(qcb)
    na_, nb_ = Decimal(na), Decimal(nb)
    ma, mb = Sa / na_, Sb / nb_
    va, vb = (Qa - Sa * Sa / na_) / (na_ - 1), (Qb - Sb * Sb / nb_) / (nb_ - 1)
    if va < 0 or vb < 0 or va + vb == 0:
        return None
    a, b = va / na_, vb / nb_
    nu = (a + b) ** 2 / (a * a / (na_ + 1) + b * b / (nb_ + 1)) - 2
    se = (a + b).sqrt()
    p = float(quantile_of(kind, L))
    c = unbits(drv.run(['tq %s %s' % (bits(p), bits(float(nu)))] if nu < 100000 else ['zq %s' % bits(p)])[0])
    md = ma - mb
    lo, hi = float(md - D(c) * se), float(md + D(c) * se)
    info = {'span': float(D(c) * se), 'mean': float(md), 'kappa': 1.0, 'dof': float(nu), 'c': c}
    if kind == 0:
        return ('two', [lo, hi], info)
    return ('upper', [lo], info) if kind == 1 else ('lower', [hi], info)


def replay_unpaired(ctx, model, what):
    drv = Driver.get(ctx)
    A, B = arith_inputs(model, 'a'), arith_inputs(model, 'b')
    pairs = [(A, B)]
    # pinned: rats data (12 vs 7), one constant sample on either side, large samples (normal branch)
    rats_a = (1440.0, 0.0, 177832.0, 0.0, 12)
    rats_b = (707.0, 0.0, 73959.0, 0.0, 7)
    const = (35.0, 0.0, 175.0, 0.0, 7)
    big_a = (5.5 * 120000, 0.0, 5.5 ** 2 * 120000 + 240000.0, 0.0, 120000)
    big_b = (4.5 * 130000, 0.0, 4.5 ** 2 * 130000 + 130000.0, 0.0, 130000)
    pairs += [(rats_a, rats_b), (rats_a, const), (const, rats_b), (big_a, big_b)]
    for (a, b) in pairs:
        for kind, L in battery_conf(model):
            cmd = 'unpaired_ci_mean f64 %s %s %d %s' % (' '.join([bits(x) for x in a[:4]] + [str(a[4])]), ' '.join([bits(x) for x in b[:4]] + [str(b[4])]), kind, bits(L))
            got = parse_result(drv.run([cmd])[0])
            exp = spec_unpaired(drv, a, b, kind, L)
            if exp is None:
                continue
            dev = deviation(got, exp)
            if dev:
                path = save(ctx, what, {'property': ctx.pid, 'what': what, 'command': cmd, 'native': got, 'reference': exp[:2], 'reference_detail': exp[2], 'deviation': dev,
                                        'how': 'reference = documented Welch-type interval in 60-digit decimals with the t quantile from statrs directly'})
                return True, path, dev
    return False, None, 'native results agree with the reference on the model-derived inputs'


def rerun(pid, path):
    """`./check <id> --replay <file.json>`: re-run the recorded native command(s) on the current tree. Exit 1 when the recorded
    (deviating) native outcome is observed again, 0 when the current tree behaves differently."""
    payload = json.load(open(path))
    ctx = core.Ctx(pid, 'quick', 0)
    drv = Driver.get(ctx)
    cmds = [payload['command']] if 'command' in payload else list(payload.get('commands', []))
    cmds = [c for c in cmds if re.match(r'[a-z_0-9]+ ', c) and '<' not in c]
    if not cmds:
        print('this replay file records a battery, not a single command; recorded deviation:', payload.get('deviation'))
        return 2
    out = drv.run(cmds)

    def norm(x):
        if isinstance(x, (list, tuple)):
            return [norm(y) for y in x]
        return x
    now = []
    for o in out:
        now.append(unbits(o) if re.fullmatch(r'0x[0-9a-f]{16}', o) else norm(parse_result(o)))
    rec = payload.get('native')
    if len(now) == 1 and not (isinstance(rec, list) and rec and isinstance(rec[0], list) and len(cmds) > 1):
        now_cmp = now[0]
    else:
        now_cmp = now
    print('command(s)              :', cmds)
    print('recorded native outcome :', rec)
    print('reference / bound       :', payload.get('reference', payload.get('exact', payload.get('documented_outcome'))))
    print('native outcome now      :', now_cmp)
    print('recorded deviation      :', payload.get('deviation'))
    same = json.loads(json.dumps(now_cmp)) == rec
    print('=> the recorded deviating outcome %s on the current tree' % ('REPRODUCES' if same else 'does not reproduce'))
    return 1 if same else 0


# ----------------------------------------------------------------------------------------------- fallback confirmations
# Used when a Kani harness that observes CALLS through recorder stubs fails: its counterexample cannot be replayed natively
# (stubs are not applied in playback), so the property-level consequence is looked for natively on a fixed battery instead.
def confirm_feeding(ctx, what='feeding'):
    """one-shot ci == incremental (append one by one, then ci_mean), bit for bit; reordering moves the bounds by a few ulps at most"""
    import struct, random
    drv = Driver.get(ctx)
    f32 = lambda v: struct.unpack('<f', struct.pack('<f', v))[0]
    rnd = random.Random(12345)
    base = [f32(100.0 + rnd.random() * 50.0) for _ in range(60000)]
    orders = [base, sorted(base), sorted(base, reverse=True), base[::2] + base[1::2]]
    res = []
    for ty, data in (('f32', base), ('f64', [1e16, 1.0, 1.0, -1e16, 3.0, 1e-3] * 50)):
        tok = ' '.join(bits(x) for x in data)
        a = drv.run(['arith_ci %s 0 %s %s' % (ty, bits(0.95), tok), 'arith_ci_inc %s 0 %s %s' % (ty, bits(0.95), tok)])
        if a[0] != a[1]:
            path = save(ctx, 'feeding_oneshot_vs_incremental_' + ty, {'property': ctx.pid, 'what': what, 'native': a, 'deviation': 'one-shot ci and incremental accumulation of the same %d observations give different intervals' % len(data),
                                                                       'commands': ['arith_ci %s two 0.95 <data>' % ty, 'arith_ci_inc %s two 0.95 <data>' % ty]})
            return True, path, 'one-shot %s vs incremental %s' % (a[0], a[1])
    outs = drv.run(['arith_ci f32 0 %s %s' % (bits(0.95), ' '.join(bits(x) for x in o)) for o in orders])
    vals = [parse_result(o) for o in outs]
    if all(v[0] == 'ok' for v in vals):
        def ulps(a, b):
            ia, ib = [struct.unpack('<i', struct.pack('<f', x))[0] for x in (a, b)]
            return abs(ia - ib)
        worst = max(ulps(v[2][j], vals[0][2][j]) for v in vals for j in (0, 1))
        if worst > 8:
            path = save(ctx, 'feeding_reordering', {'property': ctx.pid, 'what': what, 'native': outs, 'deviation': 'reordering 60000 f32 observations moves a bound by %d ulps (allowed: a few)' % worst})
            return True, path, 'reordering moves the bounds by %d ulps' % worst
    return False, None, 'one-shot and incremental agree and reordering stays within 8 ulps on the battery'


def confirm_wellformed(ctx, what='well-formed results'):
    """No entry point may return Ok with a NaN bound or with low > high. Used when a state-level / stubbed Kani harness reports
    such an outcome but its counterexample does not replay natively (the stubbed critical value is not statrs' value): the same
    outcome is looked for through the public data route on small adversarial samples (widely dispersed, constant, tiny, huge,
    with NaN / inf), every kind, several levels, f64 and f32."""
    drv = Driver.get(ctx)
    samples = [[1.0, 1000.0], [0.02, 35.0, 0.5, 1200.0], [1e-3, 1.0, 1e3], [5.0, 5.0, 5.0], [36.6, 36.6, 36.6], [1e-300, 1e300], [1e150, 1e-150, 1.0],
               [1.0, 2.0, 3.0, 4.0], [1.0, float('inf')], [1.0, float('nan'), 2.0], [0.1, 0.1, 0.1, 0.1, 0.1, 0.1], [2.0, 1e-8], [3.0, 3.0000000000000004]]
    cmds = []
    for d in samples:
        for ty in ('f64', 'f32'):
            for kind in (0, 1, 2):
                for lv in (0.5, 0.9, 0.95, 0.99, 0.3):
                    tok = ' '.join(bits(x) for x in d)
                    for ep in ('arith_ci', 'harmonic_ci', 'geometric_ci'):
                        cmds.append('%s %s %d %s %s' % (ep, ty, kind, bits(lv), tok))
                    if ty == 'f64':
                        cmds.append('paired_ci f64 %d %s %s' % (kind, bits(lv), ' '.join(bits(x) for x in (d + d[::-1]))))
                        cmds.append('unpaired_ci f64 %d %s %d %s' % (kind, bits(lv), len(d), ' '.join(bits(x) for x in (d + [2.0, 2.0, 2.5]))))
                        cmds.append('unpaired_ci f64 %d %s 3 %s' % (kind, bits(lv), ' '.join(bits(x) for x in ([2.0, 2.0, 2.5] + d))))
    for n, k in ((0, 0), (1, 0), (4, 2), (10, 5), (100, 10), (100, 90), (36037, 10), (20, 18), (3, 5)):
        for kind in (0, 1, 2):
            for lv in (0.5, 0.95, 0.9999, 0.3, 0.001):
                for ep in ('wilson', 'z_normal', 'prop_ci'):
                    cmds.append('%s %d %d %d %s' % (ep, n, k, kind, bits(lv)))
    outs = drv.run(cmds)
    for c, o in zip(cmds, outs):
        r = parse_result(o)
        if r[0] == 'panic':
            path = save(ctx, what, {'property': ctx.pid, 'what': what, 'command': c, 'native': o, 'deviation': 'panic instead of a documented error'})
            return True, path, '%s panics: %s' % (c.split()[0], o[:120])
        if r[0] == 'ok':
            b = r[2]
            if any(x != x for x in b) or (len(b) == 2 and b[0] > b[1]):
                path = save(ctx, what, {'property': ctx.pid, 'what': what, 'command': c, 'native': o, 'bounds': [repr(x) for x in b],
                                        'deviation': 'Ok with a NaN bound or with low > high'})
                return True, path, '%s returns Ok%r' % (' '.join(c.split()[:4]), b)
    return False, None, 'no Ok result with a NaN bound or inverted bounds (and no panic) on the adversarial data battery (%d calls)' % len(cmds)


def confirm_critical_value(ctx, what='critical value'):
    ok, path, note = replay_arith(ctx, {}, what)
    if ok:
        return ok, path, note
    return replay_unpaired(ctx, {}, what)


def confirm_history(ctx, what='history independence'):
    """the same call must give the same answer whatever was called before it in the same thread"""
    drv = Driver.get(ctx)
    L = bits(0.9)
    seqs = [['wilson 400 120 0 ' + L, 'wilson 400 120 1 ' + L, 'wilson 400 120 2 ' + L], ['z_normal 400 120 0 ' + L, 'z_normal 400 120 2 ' + L],
            ['qindices 100 %s 0 %s' % (bits(0.5), L), 'qindices 100 %s 1 %s' % (bits(0.5), L)], ['wilson 400 120 1 ' + L, 'wilson 400 120 0 ' + L]]
    # t-based intervals: same data, same level, the three kinds in both orders; then another level and another sample size
    d10 = ' '.join(bits(float(x)) for x in (3, 1, 4, 1, 5, 9, 2, 6, 5, 3))
    d6 = ' '.join(bits(float(x)) for x in (2, 7, 1, 8, 2, 8))
    L2 = bits(0.95)
    seqs += [['arith_ci f64 0 %s %s' % (L, d10), 'arith_ci f64 1 %s %s' % (L, d10), 'arith_ci f64 2 %s %s' % (L, d10), 'arith_ci f64 0 %s %s' % (L, d10)],
             ['arith_ci f64 1 %s %s' % (L, d10), 'arith_ci f64 0 %s %s' % (L, d10)],
             ['arith_ci f64 0 %s %s' % (L, d10), 'arith_ci f64 0 %s %s' % (L2, d10), 'arith_ci f64 0 %s %s' % (L2, d6), 'arith_ci f64 2 %s %s' % (L2, d6)],
             ['paired_ci f64 0 %s %s' % (L, d10), 'paired_ci f64 1 %s %s' % (L, d10), 'geometric_ci f64 2 %s %s' % (L, d10), 'harmonic_ci f64 0 %s %s' % (L, d10)],
             ['unpaired_ci f64 0 %s 5 %s' % (L, d10), 'unpaired_ci f64 1 %s 5 %s' % (L, d10), 'unpaired_ci f64 0 %s 5 %s' % (L, d10)]]
    for seq in seqs:
        together = drv.run(seq)
        alone = [drv.run([c])[0] for c in seq]
        if together != alone:
            path = save(ctx, 'history_dependence', {'property': ctx.pid, 'what': what, 'commands': seq, 'native_in_sequence': together, 'native_each_in_a_fresh_process': alone,
                                                    'deviation': 'the result of a call depends on the calls made before it'})
            return True, path, 'in sequence %s, alone %s' % (together, alone)
    return False, None, 'results do not depend on the call history on the battery'


def replay_domain(ctx, model, what, fam='wald'):
    """outcome class (Ok / which error) of a proportion method on the model's counts against the documented domain"""
    drv = Driver.get(ctx)
    cands = []
    try:
        cands.append((int(round(model_float(model, 'n', 0))), int(round(model_float(model, 'k', 0)))))
    except Exception:
        pass
    cands += [(0, 0), (36037, 10), (620491, 10), (100, 9), (100, 91), (20, 10), (5, 6), (30, 1), (30, 29)]
    lo = 10 if fam == 'wald' else 2
    for n, k in cands:
        if n < 0 or k < 0:
            continue
        got = parse_result(drv.run(['%s %d %d 0 %s' % ('z_normal' if fam == 'wald' else 'wilson', n, k, bits(0.95))])[0])
        want = 'InvalidSuccesses' if k > n else 'TooFewSuccesses' if k < lo else 'TooFewFailures' if n - k < lo else 'ok'
        have = 'ok' if got[0] == 'ok' else got[1] if got[0] == 'err' else 'panic'
        nan = got[0] == 'ok' and any(x != x for x in got[2])
        if have != want or nan:
            path = save(ctx, what, {'property': ctx.pid, 'what': what, 'command': '%s %d %d two 0.95' % (fam, n, k), 'native': got, 'documented_outcome': want,
                                    'deviation': 'outcome %s%s, documented domain says %s' % (have, ' with NaN bounds' if nan else '', want)})
            return True, path, 'n=%d k=%d: %s vs %s' % (n, k, have, want)
    return False, None, 'outcome classes agree with the documented domain on the model-derived counts'


def replay_relative_to(ctx, model, what):
    drv = Driver.get(ctx)
    g = lambda n, d: model_float(model, n, d)
    cases = [(0, g('x', 2.0), g('y', 4.0), 0, g('a', 2.0), g('b', 4.0)), (0, 2.0, 4.0, 0, 2.0, 4.0), (0, 1.0, 3.0, 0, 2.0, 5.0), (1, 2.0, 2.0, 0, 1.0, 4.0), (0, 1.0, 3.0, 1, 2.0, 2.0), (0, 3.0, 3.0, 0, 3.0, 3.0)]
    for ks, x, y, kr, a, b in cases:
        if not (0 <= x <= y and 0 < a <= b):
            continue
        got = parse_result(drv.run(['relative_to %d %s %s %d %s %s' % (ks, bits(x), bits(y), kr, bits(a), bits(b))])[0])
        if got[0] != 'ok':
            continue
        # members to probe: the corners
        xs = [x] + ([y] if ks == 0 else [x * 3 + 1])
        rs = [a] + ([b] if kr == 0 else [a * 3 + 1])
        lo = got[2][0] if got[1] in ('two', 'upper') else float('-inf')
        hi = got[2][-1] if got[1] in ('two', 'lower') else float('inf')
        for X in xs:
            for R in rs:
                v = (X - R) / R
                if not (lo - 1e-12 <= v <= hi + 1e-12):
                    path = save(ctx, what, {'property': ctx.pid, 'what': what, 'command': 'relative_to self kind %d [%r,%r] reference kind %d [%r,%r]' % (ks, x, y, kr, a, b), 'native': got,
                                            'deviation': 'x=%r in self, r=%r in the reference: (x-r)/r = %r is not in the result' % (X, R, v)})
                    return True, path, '(x-r)/r = %r outside %s' % (v, got)
        # attained bounds
        exp_lo, exp_hi = (x - b) / b if kr == 0 else None, (y - a) / a if ks == 0 else None
        if got[1] == 'two' and (abs(got[2][0] - exp_lo) > 1e-12 * max(1, abs(exp_lo)) or abs(got[2][1] - exp_hi) > 1e-12 * max(1, abs(exp_hi))):
            path = save(ctx, what, {'property': ctx.pid, 'what': what, 'native': got, 'reference': [exp_lo, exp_hi], 'deviation': 'bounds are not attained at the endpoints'})
            return True, path, 'bounds %s vs %s' % (got[2], [exp_lo, exp_hi])
    return False, None, 'relative_to encloses and attains on the model-derived inputs'


def replay_unpaired_mirror(ctx, model, what):
    """negating both samples must mirror the interval (and turn an error into the same error), natively, on the model's states and
    on a battery that includes constant samples"""
    drv = Driver.get(ctx)
    A, B = arith_inputs(model, 'a'), arith_inputs(model, 'b')
    const5, const2 = (15.0, 0.0, 75.0, 0.0, 3), (8.0, 0.0, 16.0, 0.0, 4)
    rats_a, rats_b = (1440.0, 0.0, 177832.0, 0.0, 12), (707.0, 0.0, 73959.0, 0.0, 7)
    neg = lambda st: (-st[0], -st[1], st[2], st[3], st[4])
    enc = lambda st: ' '.join([bits(x) for x in st[:4]] + [str(st[4])])
    for (a, b) in [(A, B), (const5, const2), (const2, const5), (rats_a, rats_b), (rats_a, const2)]:
        for kind, L in [(0, 0.95), (1, 0.9), (2, 0.9)]:
            mk = {0: 0, 1: 2, 2: 1}[kind]
            c1 = 'unpaired_ci_mean f64 %s %s %d %s' % (enc(a), enc(b), kind, bits(L))
            c2 = 'unpaired_ci_mean f64 %s %s %d %s' % (enc(neg(a)), enc(neg(b)), mk, bits(L))
            r1, r2 = [parse_result(x) for x in drv.run([c1, c2])]
            ok = True
            if r1[0] != r2[0]:
                ok = False
            elif r1[0] == 'ok':
                b1, b2 = r1[2], r2[2]
                mirrored = [-x for x in reversed(b2)]
                ok = len(b1) == len(b2) and all(close(u, v, abs(u) + abs(v) + 1e-300, 1e-9) for u, v in zip(b1, mirrored))
            elif r1[0] == 'err':
                ok = r1[1] == r2[1]
            if not ok:
                path = save(ctx, what, {'property': ctx.pid, 'what': what, 'commands': [c1, c2], 'native': [r1, r2], 'deviation': 'negating both samples does not mirror the outcome'})
                return True, path, '%s vs negated %s' % (r1, r2)
    return False, None, 'negation mirrors the outcome on the battery'


def replay_quantile_data(ctx, what):
    """C03 at the data level, natively, for sample sizes the solver-side harnesses do not reach: data[i] = (i*a + 1) mod n is a
    permutation of 0..n-1, so every value equals its own rank and the reported bounds must be exactly the ranks ci_indices returns
    (same kind); also the entry points must agree with ci_sorted_unchecked on the sorted sample."""
    from math import gcd
    drv = Driver.get(ctx)
    for n in (17, 25, 64, 100, 1000, 1025, 2000, 4099, 8000):
        for a in (7, 7919, 104729):
            if gcd(a, n) != 1:
                continue
            for q in (0.1, 0.5, 0.9):
                for kind, L in ((0, 0.95), (1, 0.9), (2, 0.9), (0, 0.6)):
                    ref = parse_result(drv.run(['qindices %d %s %d %s' % (n, bits(q), kind, bits(L))])[0])
                    for fn in ('ci', 'ci_max', 'ci_sorted'):
                        cmd = 'qdata %s %d %d %s %d %s' % (fn, n, a, bits(q), kind, bits(L))
                        got = parse_result(drv.run([cmd])[0])
                        same = got[0] == ref[0] and (got[0] != 'ok' or (got[1] == ref[1] and [float(x) for x in ref[2]] == list(got[2]))) and (got[0] != 'err' or got[1] == ref[1])
                        if not same:
                            path = save(ctx, what, {'property': ctx.pid, 'what': what, 'command': cmd, 'native': got, 'reference_ranks': ref,
                                                    'deviation': 'the sample is a permutation of 0..n-1 (value == rank): the bounds must be the ranks of ci_indices'})
                            return True, path, '%s -> %s, ranks %s' % (cmd, got, ref)
    return False, None, 'entry points return the order statistics at the ci_indices ranks on the permutation battery (n up to 8000)'


def replay_quantile_ranks(ctx, what):
    """C03 rank arithmetic, natively, including populations beyond 2^53 where `n as f64` is inexact: Stats::index(q) must be
    min(floor(q * (n as f64)) as usize, n-1); the ranks of Stats::ci / ci_indices must be in range (lo <= hi < n) and, two-sided,
    equal to that formula applied to the native two-sided Wilson bounds for (n, round(q*n))."""
    import math
    drv = Driver.get(ctx)
    U = 2 ** 64 - 1
    sat = lambda v: max(0, min(U, v))

    def idx(p, n):
        x = p * float(n)
        return min(sat(int(math.floor(x))) if x == x and abs(x) != float('inf') else (U if x > 0 else 0), n - 1)
    ns = [4, 5, 15, 100, 4097, 1000003, 2 ** 53 + 1, 2 ** 53 + 3, 2 ** 60 + 1, 2 ** 63 + 1025, U]
    for n in ns:
        for q in (0.0, 0.25, 0.5, 0.999, 1.0 - 2.0 ** -51, 1.0):
            got = drv.run(['qindex %d %s' % (n, bits(q))])[0]
            want = 'ok %d' % idx(q, n)
            if got != want:
                path = save(ctx, what, {'property': ctx.pid, 'what': what, 'command': 'qindex %d %r' % (n, q), 'native': got, 'reference': want,
                                        'deviation': 'Stats::index is not min(floor(q*n) as usize, n-1)'})
                return True, path, 'qindex %d %r: %s vs %s' % (n, q, got, want)
        for q in (0.1, 0.5, 0.9, 1.0 - 2.0 ** -51):
            for kind, L in ((0, 0.95), (1, 0.9), (2, 0.9), (0, 0.99)):
                for cmdname in ('qstats_ci', 'qindices'):
                    cmd = '%s %d %s %d %s' % (cmdname, n, bits(q), kind, bits(L))
                    got = parse_result(drv.run([cmd])[0])
                    if got[0] == 'panic':
                        path = save(ctx, what, {'property': ctx.pid, 'what': what, 'command': cmd, 'native': got, 'deviation': 'panic'})
                        return True, path, '%s panics' % cmd
                    if got[0] != 'ok':
                        continue
                    r = got[2]
                    bad = any(x >= n for x in r) or (len(r) == 2 and r[0] > r[1])
                    ref = None
                    if not bad and kind == 0:
                        x = q * float(n)
                        k = sat(int(x) if abs(x) >= 2.0 ** 52 else int(math.floor(x + 0.5)))      # f64::round (half away from zero), exact
                        w = parse_result(drv.run(['wilson %d %d 0 %s' % (n, k, bits(L))])[0])
                        if w[0] == 'ok' and w[1] == 'two':
                            ref = [idx(w[2][0], n), idx(w[2][1], n)]
                            bad = ref != list(r)
                    if bad:
                        path = save(ctx, what, {'property': ctx.pid, 'what': what, 'command': cmd, 'native': got, 'reference_ranks': ref,
                                                'deviation': 'ranks out of range / not min(floor(p*n), n-1) of the native Wilson bounds'})
                        return True, path, '%s -> %s (reference %s)' % (cmd, got, ref)
    return False, None, 'Stats::index / Stats::ci ranks follow the formula and stay in range on the battery (n up to usize::MAX)'


def replay_point_estimate(ctx, what, which=('arith', 'harmonic', 'geometric')):
    """C10 / C05 / C16 at the data level: the one-shot interval contains the point estimate of the same data (two-sided, and one-sided at
    levels >= 1/2) - in particular for constant samples, whose interval is degenerate - and positive data scaled by a power of two is
    still accepted with bounds scaled accordingly (up to rounding)."""
    drv = Driver.get(ctx)
    consts = [[15.8] * 3, [25.5] * 3, [0.1] * 7, [3.3] * 5, [1e-3] * 6, [7.0] * 4]
    varied = [[10.6, 6.6, 26.7, 0.4, 5.7, 0.3, 1.1, 5.0, 8.4, 1.4], [2.0, 2.5, 3.0, 2.25]]
    for w in which:
        for data in consts + varied:
            for kind, L in ((0, 0.95), (1, 0.9), (2, 0.9), (0, 0.5)):
                cmd = 'point_in_ci %s %d %s %s' % (w, kind, bits(L), ' '.join(bits(x) for x in data))
                out = drv.run([cmd])[0]
                if ' mean ' not in out:
                    continue
                res, mean_s = out.split(' mean ')
                got = parse_result(res)
                if got[0] != 'ok' or not mean_s.startswith('0x'):
                    continue            # an error is a legitimate outcome here (numerically negative variance of a constant sample, reciprocal-space bound <= 0)
                mu = unbits(mean_s)
                lo = got[2][0] if got[1] in ('two', 'upper') else float('-inf')
                hi = got[2][-1] if got[1] in ('two', 'lower') else float('inf')
                if not (lo <= mu <= hi):
                    path = save(ctx, what, {'property': ctx.pid, 'what': what, 'command': cmd, 'native': out, 'point_estimate': mu, 'deviation': 'the interval does not contain the reported point estimate'})
                    return True, path, '%s: mean %r outside [%r, %r]' % (cmd, mu, lo, hi)
        if w in ('harmonic', 'geometric'):
            data = [2.0, 2.5, 3.0, 2.25, 2.75, 2.125]
            base = parse_result(drv.run(['%s_ci f64 0 %s %s' % (w, bits(0.9), ' '.join(bits(x) for x in data))])[0])
            if base[0] != 'ok':
                continue
            for e in (-60, 60, -200, -53, -25):
                sc = 2.0 ** e
                cmd = '%s_ci f64 0 %s %s' % (w, bits(0.9), ' '.join(bits(x * sc) for x in data))
                got = parse_result(drv.run([cmd])[0])
                bad = got[0] != 'ok' or not all(close(g, b * sc, b * sc, 1e-9) for g, b in zip(got[2], base[2]))
                if bad:
                    path = save(ctx, what, {'property': ctx.pid, 'what': what, 'command': cmd, 'native': got, 'unscaled': base, 'scale': '2^%d' % e,
                                            'deviation': 'data scaled by a power of two: the interval is not the scaled interval (or the data is rejected)'})
                    return True, path, '%s -> %s' % (cmd, got)
    return False, None, 'intervals contain the point estimate and scale with powers of two on the battery'


def replay_arith_mirror(ctx, model, what):
    """negating the data mirrors the arithmetic interval EXACTLY (bit for bit) and exchanges upper/lower one-sidedness - including levels
    below 1/2, where 1 - L is not exact"""
    drv = Driver.get(ctx)
    datasets = [[3.0, 1.0, 4.0, 1.0, 5.0, 9.0, 2.0, 6.0], [10.6, 6.6, 26.7, 0.4, 5.7, 0.3, 1.1], [0.1, 0.2, 0.30000000000000004, 0.4]]
    for d in datasets:
        for kind in (0, 1, 2):
            for L in (0.05, 0.1, 0.15, 0.2, 0.3, 0.45, 0.6, 0.9, 0.95, model_float(model, 'L', 0.8)):
                if not (0 < L < 1):
                    continue
                mk = {0: 0, 1: 2, 2: 1}[kind]
                c1 = 'arith_ci f64 %d %s %s' % (kind, bits(L), ' '.join(bits(x) for x in d))
                c2 = 'arith_ci f64 %d %s %s' % (mk, bits(L), ' '.join(bits(-x) for x in d))
                a, b = parse_result(drv.run([c1])[0]), parse_result(drv.run([c2])[0])
                if a[0] != 'ok' or b[0] != 'ok':
                    if a[0] != b[0]:
                        path = save(ctx, what, {'property': ctx.pid, 'what': what, 'commands': [c1, c2], 'native': [a, b], 'deviation': 'outcome changes under negation'})
                        return True, path, 'outcome %s vs %s' % (a, b)
                    continue
                want = [-x for x in reversed(a[2])]
                if list(b[2]) != want or {'two': 'two', 'upper': 'lower', 'lower': 'upper'}[a[1]] != b[1]:
                    path = save(ctx, what, {'property': ctx.pid, 'what': what, 'commands': [c1, c2], 'native': [a, b], 'deviation': 'CI(-data) is not the exact mirror image of CI(data)'})
                    return True, path, '%s vs %s' % (a, b)
    return False, None, 'negation mirrors the interval bit for bit on the battery'
