"""Native replays for engine-M counterexamples (placeholder, filled in below)."""
def replay_ratio(ctx, n, k):
    return False, None, 'native replay not built yet'
