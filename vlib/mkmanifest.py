#!/usr/bin/env python3
"""Regenerates MANIFEST.json from the table below (kept in one place so it stays valid)."""
import json, os
HERE = os.path.dirname(os.path.dirname(os.path.abspath(__file__)))
import sys
sys.path.insert(0, HERE)
from props.table import CHECKS, NOT_APPLICABLE, ENGINES

m = {
    'version': 1,
    'setup_cmd': './setup.sh',
    'hooks': {
        'guard': 'cfg(kani)',
        'enable': 'no source hooks in /repo: every check copies /repo\'s working tree (src, Cargo.toml, Cargo.lock, README.md) to a scratch directory and appends `#[cfg(kani)] mod <harness>;` lines plus harness files there; cfg(kani) is set by cargo-kani only',
        'baseline_off_cmd': 'cd /repo && cargo test --workspace --no-fail-fast --offline',
        'source_commits': [],
        'add_only': True,
    },
    'engines': ENGINES,
    'checks': [],
    'not_applicable': NOT_APPLICABLE,
    'notes': 'Solver-based checking of the real code: engine K = Kani/CBMC (CaDiCaL) on the compiled crate with in-crate cfg(kani) harness modules; engine M = own symbolic executor over rustc MIR (-Zunpretty=mir) emitting SMT-LIB for z3/cvc5. Exit codes: 0 held within bounds, 1 VIOLATION (natively replayed), 2 INCONCLUSIVE (timeout, vacuity witness unreached, non-reproducing candidate). See DESIGN.md.',
}
for c in CHECKS:
    m['checks'].append({
        'property_id': c['id'],
        'quick_cmd': './check %s --tier quick' % c['id'],
        'thorough_cmd': './check %s --tier thorough' % c['id'],
        'evidence_file': 'evidence/%s.json' % c['id'],
        'replay_cmd_template': './check %s --replay {path}' % c['id'],
        'engine': c['engine'],
        'level_claimed': {'category': c['level'], 'text': c['text'], 'design_ref': c.get('ref', 'DESIGN.md §3 ' + c['id'])},
        'level_note': c['note'],
        'technique': c['technique'],
    })
json.dump(m, open(os.path.join(HERE, 'MANIFEST.json'), 'w'), indent=1)
print('MANIFEST.json: %d checks, %d not applicable' % (len(m['checks']), len(m['not_applicable'])))
