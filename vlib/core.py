"""Driver core: scratch copy of /repo, Kani runner, findings, evidence, verdict/exit code.

Everything here is regenerated from /repo's *current working tree* on every run; nothing is
cached between runs and the scratch directory (with its target/) is removed on exit.
"""
import atexit, json, os, re, shutil, signal, subprocess, sys, time, hashlib

VERIF = os.path.dirname(os.path.dirname(os.path.abspath(__file__)))
REPO = os.environ.get('VERIF_REPO', '/repo')
MODULES = ['utils', 'mean', 'comparison', 'proportion', 'quantile', 'interval', 'confidence', 'stats', 'error']
NCPU = os.cpu_count() or 4
# developer overrides (never set by the registered commands): where evidence / replays of a side run go
EVID_DIR = os.environ.get('VERIF_EVIDENCE_DIR', os.path.join(VERIF, 'evidence'))
REPLAY_DIR = os.environ.get('VERIF_REPLAY_DIR', os.path.join(VERIF, 'replays'))

ENV = dict(os.environ)
ENV.update({'CARGO_NET_OFFLINE': 'true', 'CARGO_TERM_COLOR': 'never', 'RUST_BACKTRACE': '0'})
ENV.pop('RUSTFLAGS', None)


def log(*a):
    print(*a, flush=True)


def sh(cmd, cwd=None, timeout=None, env=None, input=None):
    """Run a command, return (rc, combined output, seconds). rc = -9 on timeout."""
    t = time.time()
    try:
        p = subprocess.Popen(cmd, cwd=cwd, env=env or ENV, stdin=subprocess.PIPE if input is not None else subprocess.DEVNULL,
                             stdout=subprocess.PIPE, stderr=subprocess.STDOUT, text=True, start_new_session=True)
        try:
            out, _ = p.communicate(input=input, timeout=timeout)
            return p.returncode, out, time.time() - t
        except subprocess.TimeoutExpired:
            try:
                os.killpg(p.pid, signal.SIGKILL)
            except ProcessLookupError:
                pass
            out, _ = p.communicate()
            return -9, out, time.time() - t
    except FileNotFoundError as e:
        return 127, str(e), time.time() - t


# ------------------------------------------------------------------------------ scratch copy
class Scratch:
    """A throw-away copy of /repo's working tree with the cfg(kani) harness modules appended."""

    def __init__(self, features=None, harness_dirs=True, tag=''):
        base = os.environ.get('VERIF_SCRATCH_BASE', '/var/tmp')
        self.dir = os.path.join(base, 'stats-ci-verif.%d%s' % (os.getpid(), tag))
        self.features = features
        shutil.rmtree(self.dir, ignore_errors=True)
        os.makedirs(self.dir)
        atexit.register(self.cleanup)
        for name in ('src', 'Cargo.toml', 'Cargo.lock', 'README.md'):
            p = os.path.join(REPO, name)
            if os.path.isdir(p):
                shutil.copytree(p, os.path.join(self.dir, name))
            elif os.path.exists(p):
                shutil.copy(p, os.path.join(self.dir, name))
        ct = os.path.join(self.dir, 'Cargo.toml')
        s = open(ct).read()
        s = re.sub(r'\[\[bench\]\][^\[]*', '', s)           # benches are not copied
        if '[workspace]' not in s:
            s += '\n[workspace]\n'
        open(ct, 'w').write(s)
        os.makedirs(os.path.join(self.dir, '.cargo'), exist_ok=True)
        open(os.path.join(self.dir, '.cargo', 'config.toml'), 'w').write('[net]\noffline = true\n')
        self.harness_files = {}
        if harness_dirs:
            self.install_harnesses()
        self.kani_built = False

    def install_harnesses(self):
        kdir = os.path.join(VERIF, 'kani')
        for mod in sorted(os.listdir(kdir)):
            src_mod = os.path.join(self.dir, 'src', mod + '.rs')
            hdir = os.path.join(kdir, mod)
            if not os.path.isdir(hdir):
                continue
            if mod == 'root':
                target_dir, decl_file = os.path.join(self.dir, 'src'), os.path.join(self.dir, 'src', 'lib.rs')
            elif os.path.exists(src_mod):
                target_dir, decl_file = os.path.join(self.dir, 'src', mod), src_mod
            else:
                continue
            os.makedirs(target_dir, exist_ok=True)
            decl = ''
            for f in sorted(os.listdir(hdir)):
                if not f.endswith('.rs'):
                    continue
                name = f[:-3]
                txt = open(os.path.join(hdir, f)).read()
                m = re.match(r'//\s*requires-feature:\s*(\w+)', txt)
                guard = 'kani'
                if m:
                    guard = 'all(kani, feature = "%s")' % m.group(1)
                shutil.copy(os.path.join(hdir, f), os.path.join(target_dir, f))
                decl += '\n#[cfg(%s)]\npub(crate) mod %s;\n' % (guard, name)
                self.harness_files[name] = os.path.join(target_dir, f)
            with open(decl_file, 'a') as fh:          # add-only: existing lines untouched
                fh.write(decl)

    def cleanup(self):
        shutil.rmtree(self.dir, ignore_errors=True)

    def src_hash(self):
        h = hashlib.sha256()
        for root, _, files in sorted(os.walk(os.path.join(REPO, 'src'))):
            for f in sorted(files):
                h.update(open(os.path.join(root, f), 'rb').read())
        return h.hexdigest()[:16]


# ------------------------------------------------------------------------------ Kani
class HarnessResult:
    def __init__(self, name):
        self.name = name
        self.status = 'missing'       # ok | failed | timeout | error | missing
        self.failed_checks = []       # [(message, file, line)]
        self.covers = (0, 0)
        self.nchecks = 0
        self.time = 0.0
        self.raw = ''

    def short(self):
        return self.name.split('::')[-1]


def kani_cmd(filters, jobs, harness_timeout, features=None, extra=()):
    cmd = ['cargo', 'kani', '-Z', 'stubbing', '-Z', 'unstable-options', '--no-overflow-checks',
           '--output-format', 'terse', '-j', str(jobs), '--harness-timeout', '%ds' % harness_timeout]
    if features is not None:
        cmd += ['--no-default-features', '--features', features]
    for f in filters:
        cmd += ['--harness', f]
    return cmd + list(extra)


def parse_kani(out):
    """Parse `--output-format terse -j N` output into {full harness name: HarnessResult}."""
    res = {}
    cur_of_thread = {}
    lines = out.split('\n')
    i = 0
    block_thread = None
    for line in lines:
        m = re.match(r'Thread (\d+): Checking harness (\S+?)\.\.\.$', line)
        if m:
            r = HarnessResult(m.group(2))
            r.status = 'error'
            res[m.group(2)] = r
            cur_of_thread[m.group(1)] = r
            block_thread = None
            continue
        m = re.match(r'Thread (\d+):\s*$', line)
        if m:
            block_thread = m.group(1)
            continue
        m = re.match(r'Checking harness (\S+?)\.\.\.$', line)        # non -j output
        if m:
            r = HarnessResult(m.group(1))
            r.status = 'error'
            res[m.group(1)] = r
            cur_of_thread['x'] = r
            block_thread = 'x'
            continue
        if block_thread is None or block_thread not in cur_of_thread:
            continue
        r = cur_of_thread[block_thread]
        r.raw += line + '\n'
        m = re.match(r' \*\* (\d+) of (\d+) failed', line)
        if m:
            r.nchecks = int(m.group(2))
        m = re.match(r' \*\* (\d+) of (\d+) cover properties satisfied', line)
        if m:
            r.covers = (int(m.group(1)), int(m.group(2)))
        m = re.match(r'Failed Checks: (.*)$', line)
        if m:
            r.failed_checks.append([m.group(1).strip().strip('"'), '', 0])
        m = re.match(r' File: "(.*?)", line (\d+)', line)
        if m and r.failed_checks and not r.failed_checks[-1][1]:
            r.failed_checks[-1][1] = m.group(1)
            r.failed_checks[-1][2] = int(m.group(2))
        m = re.match(r'VERIFICATION:- (\w+)', line)
        if m:
            r.status = 'ok' if m.group(1) == 'SUCCESSFUL' else 'failed'
        m = re.match(r'Verification Time: ([\d.]+)s', line)
        if m:
            r.time = float(m.group(1))
        if 'CBMC timed out' in line or 'timed out' in line.lower():
            r.status = 'timeout'
    # the summary also names timeouts / failures
    for line in lines:
        m = re.match(r'Verification failed for - (\S+)', line)
        if m and m.group(1) in res and res[m.group(1)].status in ('error',):
            res[m.group(1)].status = 'timeout' if 'timed out' in res[m.group(1)].raw.lower() else 'failed'
    return res


def kani_run(scratch, filters, jobs=None, harness_timeout=600, total_timeout=None, extra=()):
    jobs = jobs or min(NCPU, 16)
    cmd = kani_cmd(filters, jobs, harness_timeout, scratch.features, extra)
    env = dict(ENV)
    rc, out, dt = sh(cmd, cwd=scratch.dir, timeout=total_timeout, env=env)
    res = parse_kani(out)
    build_failed = ('error: could not compile' in out) or ('error[E' in out and not res)
    return {'rc': rc, 'out': out, 'time': dt, 'results': res, 'build_failed': build_failed, 'cmd': ' '.join(cmd)}


def parse_playback_tests(out):
    """Parse `--concrete-playback=print` blocks -> list of dict(harness, kind, message, name, text)."""
    tests = []
    for m in re.finditer(r"```\n/// Test generated for harness `([^`]+)`\s*\n///\s*\n/// Check for `(\w+)`: (.*?)\n(?:///[^\n]*\n|[ \t]*\n)*#\[test\]\nfn (\w+)\(\) \{\n(.*?)\n\}\n```", out, re.S):
        msg = m.group(3).strip()
        while len(msg) >= 2 and msg[0] == '"' and msg[-1] == '"':
            msg = msg[1:-1]
        tests.append({'harness': m.group(1), 'kind': m.group(2), 'message': msg, 'name': m.group(4),
                      'text': '#[test]\nfn %s() {\n%s\n}\n' % (m.group(4), m.group(5))})
    return tests


def kani_replay_batch(scratch, failures, timeout=1200):
    """failures: [(full harness name, failed-check message)]. For each, obtain Kani's concrete counterexample,
    write it as a #[test] into the harness module of the scratch copy and run all of them natively in one
    `cargo kani playback` (real crate code; stubs are NOT applied). Returns {(name,msg): dict(reproduced, text, note)}."""
    res = {}
    if not failures:
        return res
    shorts = sorted(set(n.split('::')[-1] for n, _ in failures))
    cmd = ['cargo', 'kani', '-Z', 'stubbing', '-Z', 'unstable-options', '--no-overflow-checks', '--output-format', 'terse',
           '-Z', 'concrete-playback', '--concrete-playback=print', '--exact']
    if scratch.features is not None:
        cmd += ['--no-default-features', '--features', scratch.features]
    full = sorted(set(n for n, _ in failures))
    # one Kani invocation per failing harness, in parallel (each regenerates the counterexample as a unit test)
    from concurrent.futures import ThreadPoolExecutor

    def gen(n):
        return sh(cmd + ['--harness', n], cwd=scratch.dir, timeout=timeout)
    with ThreadPoolExecutor(max_workers=min(8, len(full))) as ex:
        outs = list(ex.map(gen, full))
    out = '\n'.join(o[1] for o in outs)
    tests = parse_playback_tests(out)
    chosen = {}
    for (n, msg) in failures:
        allh = [t for t in tests if t['harness'] == n]
        cands = [t for t in allh if t['kind'] != 'cover']
        exact = [t for t in cands if t['message'] == msg or msg in t['message']]
        # Kani de-duplicates tests by input bytes: the failing input may only appear under a cover's name
        pick = exact or cands or allh
        if not pick:
            res[(n, msg)] = {'reproduced': False, 'text': '', 'note': 'kani produced no concrete playback test for this check'}
            continue
        chosen[(n, msg)] = pick
    # install tests (deduplicated by name) next to their harness
    by_file = {}
    for (n, msg), ts in chosen.items():
        short = n.split('::')[-1]
        for hname, path in scratch.harness_files.items():
            if re.search(r'\b%s\b' % re.escape(short), open(path).read()):
                for t in ts:
                    by_file.setdefault(path, {})[t['name']] = t['text']
                    t['file'] = path
                break
    originals = {}
    for path, ts in by_file.items():
        originals[path] = open(path).read()
        with open(path, 'a') as fh:
            fh.write('\n// ---- native replays of Kani counterexamples\n')
            for name, text in sorted(ts.items()):
                fh.write(text + '\n')
    cmd2 = ['cargo', 'kani', 'playback', '-Z', 'concrete-playback']
    if scratch.features is not None:
        cmd2 += ['--no-default-features', '--features', scratch.features]
    cmd2 += ['--', 'kani_concrete_playback_']
    rc2, out2, dt2 = sh(cmd2, cwd=scratch.dir, timeout=timeout)
    failed = set(re.findall(r'test \S*?(kani_concrete_playback_\w+) \.\.\. FAILED', out2))
    passed = set(re.findall(r'test \S*?(kani_concrete_playback_\w+) \.\.\. ok', out2))
    for path, txt in originals.items():
        open(path, 'w').write(txt)
    # panic text per failed test
    panics = {}
    for m in re.finditer(r'---- \S*?(kani_concrete_playback_\w+) stdout ----\n(.*?)(?=\n---- |\nfailures:)', out2, re.S):
        panics[m.group(1)] = m.group(2)
    for key, ts in chosen.items():
        msg = key[1]
        labelled = bool(re.match(r'C\d\d:', msg))
        hit = [t for t in ts if t['name'] in failed and (not labelled or msg in panics.get(t['name'], msg))]
        if hit:
            res[key] = {'reproduced': True, 'text': hit[0]['text'], 'note': '', 'file': hit[0].get('file', ''),
                        'panic': panics.get(hit[0]['name'], '')[:400]}
        elif any(t['name'] in passed or t['name'] in failed for t in ts):
            res[key] = {'reproduced': False, 'text': ts[0]['text'], 'note': 'the generated test(s) do not fail natively with this check (stub or model artefact)', 'file': ts[0].get('file', '')}
        else:
            res[key] = {'reproduced': False, 'text': ts[0]['text'], 'note': 'native playback did not run: ' + out2[-600:], 'file': ts[0].get('file', '')}
    return res


# ------------------------------------------------------------------------------ known findings
def load_findings():
    """known_findings.txt: `open: property=<id> key=<key> <text>` / `fixed: property=<id> <commit> key=<key> <text>`.
    Keys name the *role* of the failing input (harness-level assertion labels), never solver-chosen numbers."""
    path = os.path.join(VERIF, 'known_findings.txt')
    out = {'open': [], 'fixed': []}
    if not os.path.exists(path):
        return out
    for line in open(path):
        line = line.strip()
        if not line or line.startswith('#'):
            continue
        m = re.match(r'(open|fixed): property=(\S+) (?:(\S+) )?key=(\S+)\s*(.*)$', line)
        if m:
            out[m.group(1)].append({'property': m.group(2), 'commit': m.group(3), 'key': m.group(4), 'text': m.group(5)})
    return out


# ------------------------------------------------------------------------------ check context
class Ctx:
    def __init__(self, pid, tier, seed):
        self.pid, self.tier, self.seed = pid, tier, seed
        self.t0 = time.time()
        self.records = []        # obligations: dict(name, engine, status, key, detail, time, bound)
        self.assumptions = []
        self.functions = []
        self.samples = []
        self.extra = {}
        self.violations = []     # confirmed: (key, text, replay path)
        self.known = []
        self.inconclusive = []
        self.replays_attempted = 0
        self.replays_confirmed = 0
        self._scratch = {}
        self.findings = load_findings()
        self.level = 'model_checking'
        self.trusted_base = []
        self.checker_cmds = []
        self.solver_time = 0.0

    # ---- scratch copies (one per feature set), built lazily
    def scratch(self, features=None):
        key = features or ''
        if key not in self._scratch:
            self._scratch[key] = Scratch(features=features, tag='' if not key else '.' + re.sub(r'\W', '_', key))
        return self._scratch[key]

    def record(self, name, engine, status, key=None, detail='', time_s=0.0, bound='', sample=None):
        self.records.append({'name': name, 'engine': engine, 'status': status, 'key': key or name, 'detail': detail,
                             'time_s': round(time_s, 3), 'bound': bound})
        if sample is not None:
            per = sum(1 for s_ in self.samples if s_.get('_engine') == engine)
            if per < 6 and len(self.samples) < 14:
                sample = dict(sample)
                sample['_engine'] = engine
                self.samples.append(sample)

    # ---- verdict handling
    def classify(self, key, text, reproduce):
        """A candidate violation with role `key`. `reproduce()` replays natively -> (ok, replay_path, note)."""
        self.replays_attempted += 1
        ok, path, note = reproduce()
        if not ok:
            self.inconclusive.append('candidate %s did not reproduce natively (%s)' % (key, note))
            return 'inconclusive'
        self.replays_confirmed += 1
        for f in self.findings['open']:
            if f['property'] == self.pid and (f['key'] == key or re.fullmatch(f['key'], key)):
                if not any(k[0] == f['key'] for k in self.known):
                    self.known.append((f['key'], f['text'] or text))
                return 'known'
        self.violations.append((key, text, path))
        return 'violation'

    def write_evidence(self):
        n_obl = sum(1 for r in self.records if r['status'] != 'note')
        held = sum(1 for r in self.records if r['status'] == 'held')
        cov = {
            'obligations': n_obl, 'discharged': held,
            'samples': self.samples[:12] or [r['name'] for r in self.records[:5]] or ['(none)'],
            'records': self.records,
            'functions_encoded': sorted(set(self.functions)),
            'solver_time_s': round(self.solver_time, 2),
            'replays_attempted': self.replays_attempted,
            'known_findings_reported': [k for k, _ in self.known],
            'inconclusive': self.inconclusive,
        }
        if self.level == 'model_checking':
            cov['states'] = max(1, int(self.extra.get('cbmc_checks', 0)) or n_obl)
            cov['transitions'] = max(1, n_obl)
            cov['traces_validated_against_impl'] = self.replays_confirmed
            cov['states_meaning'] = 'number of CBMC properties (assertions, panics, overflow and pointer checks) decided over all symbolic inputs'
            cov['transitions_meaning'] = 'number of harnesses / obligations decided'
        if self.level == 'proof':
            cov['checker_cmd'] = '; '.join(self.checker_cmds[:4]) or 'z3-new -in'
            cov['trusted_base'] = self.trusted_base
        if self.level == 'other':
            cov['explanation'] = self.extra.get('explanation', 'see records')
            cov['evaluations'] = max(1, n_obl)
            cov['distinct_nontrivial'] = max(2, held)
        cov.update({k: v for k, v in self.extra.items() if k not in ('explanation',)})
        ev = {'property_id': self.pid, 'tier': self.tier, 'seed': self.seed, 'level': self.level, 'coverage': cov,
              'assumptions': self.assumptions, 'wall_s': round(time.time() - self.t0, 2), 'violations': len(self.violations)}
        os.makedirs(EVID_DIR, exist_ok=True)
        with open(os.path.join(EVID_DIR, self.pid + '.json'), 'w') as fh:
            json.dump(ev, fh, indent=1)

    def finish(self):
        self.write_evidence()
        for k, text in self.known:
            log('KNOWN-FINDING: property=%s %s [%s]' % (self.pid, text, k))
        for key, text, path in self.violations:
            log('VIOLATION property=%s replay=%s' % (self.pid, path))
            log('  what: %s (%s)' % (text, key))
        held = sum(1 for r in self.records if r['status'] == 'held')
        log('%s %s: %d/%d obligations held, %d known, %d violations, %d inconclusive, %.0fs' %
            (self.pid, self.tier, held, sum(1 for r in self.records if r['status'] != 'note'), len(self.known), len(self.violations), len(self.inconclusive), time.time() - self.t0))
        if self.violations:
            return 1
        if self.inconclusive:
            for x in self.inconclusive:
                log('INCONCLUSIVE: ' + x)
            return 2
        return 0


# ------------------------------------------------------------------------------ generic K step
def save_replay(ctx, harness_short, rep, message):
    d = os.path.join(REPLAY_DIR, ctx.pid)
    os.makedirs(d, exist_ok=True)
    path = os.path.join(d, harness_short + '.rs')
    with open(path, 'w') as fh:
        fh.write('// Native replay of a Kani counterexample for property %s, harness %s, failed check "%s".\n' % (ctx.pid, harness_short, message))
        fh.write('// Re-run: /verif/check %s --replay %s   (appends this test to the harness module of a fresh scratch copy of\n' % (ctx.pid, path))
        fh.write('// /repo and runs `cargo kani playback -Z concrete-playback`, i.e. the harness body natively on these bytes).\n')
        fh.write('// harness-file: %s\n' % os.path.basename(rep.get('file') or ''))
        fh.write(rep['text'] + '\n')
    return path


def declared_harnesses(prefixes, features=None):
    """Names of the harnesses declared in /verif/kani/** whose name starts with one of the prefixes
    (plain `fn name()` after #[kani::proof...] and first identifiers of harness-generating macro calls)."""
    names = set()
    kdir = os.path.join(VERIF, 'kani')
    for root, _, files in os.walk(kdir):
        for f in files:
            if not f.endswith('.rs'):
                continue
            txt = open(os.path.join(root, f)).read()
            m = re.match(r'//\s*requires-feature:\s*(\w+)', txt)
            if m and m.group(1) not in (features if features is not None else 'approx,std'):
                continue
            for line in txt.split('\n'):
                if line.startswith('macro_rules!'):
                    continue
                m = re.match(r'\s*(?:pub(?:\(crate\))? )?fn (\w+)\s*\(\s*\)', line)
                cands = [m.group(1)] if m else []
                if re.match(r'\w+!\(', line):
                    cands += re.findall(r'\b([ct]\d\d_\w+)\b', line)
                for n in cands:
                    if any(n.startswith(p) for p in prefixes):
                        names.add(n)
    return names


def _fb(name):
    def call(ctx, what):
        from . import native
        return getattr(native, name)(ctx, what)
    return call


DEFAULT_FALLBACKS = {
    r'C0[19]:arith:(feeding|ci|trait)|c01_arith_feeding|C09:arith:(extend|from_iter)': _fb('confirm_feeding'),
    r'C06:(interval_bounds|t_value|z_value|quantile)': _fb('confirm_critical_value'),
    r'history-dependent|quantile_per_call|history_independent': _fb('confirm_history'),
    r'ok-with-nan-or-inverted-bounds': _fb('confirm_wellformed'),
}


def run_kani_set(ctx, filters, bound, harness_timeout=300, features=None, jobs=None, expect_min=None, expected_fail=None, exact=False, fallback=None, solver=None):
    """Run a set of Kani harnesses; every harness is one obligation. Failed checks are replayed natively and
    classified (violation / known finding / inconclusive).
    expected_fail: {harness short name: [regex of check messages that MUST fail]} -- used for 'documented panic'
    harnesses: the named panic has to be reported, and nothing else may fail (in particular not the
    `...:returned` marker placed after the call)."""
    expected_fail = expected_fail or {}
    tag = (' [%s]' % solver) if solver else ''
    sc = ctx.scratch(features)
    r = kani_run(sc, filters, jobs=jobs, harness_timeout=harness_timeout, extra=(['--exact'] if exact else []) + (['--solver', solver] if solver else []))
    ctx.checker_cmds.append(r['cmd'])
    if r['build_failed'] or (not r['results']):
        ctx.inconclusive.append('kani build/run failed for %s: %s' % (filters, r['out'][-1500:]))
        return r
    if expect_min is None and not exact:
        decl = declared_harnesses(filters, features)
        ran = set(n.split('::')[-1] for n in r['results'])
        if decl - ran:
            ctx.inconclusive.append('declared harnesses not run by kani: %s' % sorted(decl - ran))
    elif expect_min is not None and len(r['results']) < expect_min:
        ctx.inconclusive.append('expected >= %d harnesses for %s, kani ran %d' % (expect_min, filters, len(r['results'])))
    pending = []
    for name, h in sorted(r['results'].items()):
        ctx.solver_time += h.time
        ctx.extra['cbmc_checks'] = ctx.extra.get('cbmc_checks', 0) + h.nchecks
        short = h.short()
        exp = expected_fail.get(short, [])
        fails = [fc for fc in h.failed_checks if not any(re.search(e, fc[0]) for e in exp)]
        exp_hit = [e for e in exp if any(re.search(e, fc[0]) for fc in h.failed_checks)]
        if h.status in ('ok', 'failed') and not fails and (h.status == 'ok' or exp):
            if exp and len(exp_hit) != len(exp):
                ctx.record(short + tag, 'K', 'inconclusive', detail='expected panic %s not reported' % exp, time_s=h.time, bound=bound)
                ctx.inconclusive.append('%s: expected documented panic not reported by CBMC (vacuous harness?)' % short)
            elif h.covers[0] != h.covers[1]:
                ctx.record(short + tag, 'K', 'inconclusive', detail='vacuity: only %d of %d cover witnesses reached' % h.covers, time_s=h.time, bound=bound)
                ctx.inconclusive.append('%s: %d of %d cover witnesses reached' % (short, h.covers[0], h.covers[1]))
            else:
                ctx.record(short + tag, 'K', 'held', time_s=h.time, bound=bound,
                           sample={'harness': short, 'cbmc_properties': h.nchecks, 'covers_reached': h.covers[0],
                                   'verdict': 'SUCCESSFUL' if not exp else 'only the documented panic fails', 'time_s': h.time})
        elif h.status == 'failed':
            for msg, f, line in (fails or [['(unnamed failure)', '', 0]]):
                pending.append((name, short, msg, f, line, h))
        else:
            ctx.record(short + tag, 'K', 'inconclusive', detail=h.status, time_s=h.time, bound=bound)
            ctx.inconclusive.append('%s: %s' % (short, h.status))
    if pending:
        reps = kani_replay_batch(sc, [(p[0], p[2]) for p in pending])
        for name, short, msg, f, line, h in pending:
            key = msg if re.match(r'C\d\d:', msg) else '%s:%s' % (short, msg)
            rep = reps.get((name, msg), {'reproduced': False, 'note': 'no replay', 'text': ''})

            def reproduce(rep=rep, short=short, msg=msg, key=key):
                if rep['reproduced']:
                    return True, save_replay(ctx, short, rep, msg), ''
                # harnesses that observe calls through recorder stubs cannot be replayed natively (stubs are not applied in
                # playback): look for the property-level consequence natively on a fixed battery instead
                for pat, fn in (fallback or DEFAULT_FALLBACKS).items():
                    if re.search(pat, key) or re.search(pat, short):
                        ok, path, note = fn(ctx, key)
                        if ok:
                            return True, path, note
                        return False, None, rep.get('note', '') + '; native battery: ' + note
                return False, None, rep.get('note', '')
            verdict = ctx.classify(key, 'harness %s: check "%s" fails (%s:%s)' % (short, msg, f, line), reproduce)
            ctx.record(short + ' :: ' + msg, 'K', {'violation': 'violated', 'known': 'known-finding', 'inconclusive': 'inconclusive'}[verdict],
                       key=key, time_s=h.time, bound=bound)
    return r
