#!/usr/bin/env python3
import argparse, importlib, os, sys, traceback
HERE = os.path.dirname(os.path.abspath(__file__))
sys.path.insert(0, os.path.dirname(HERE))
from vlib import core


def main():
    ap = argparse.ArgumentParser()
    ap.add_argument('prop')
    ap.add_argument('--tier', default=os.environ.get('VERIF_TIER', 'quick'), choices=['quick', 'thorough'])
    ap.add_argument('--replay', default=None)
    a = ap.parse_args()
    seed = int(os.environ.get('VERIF_SEED', '0') or 0)
    pid = a.prop.upper()
    if a.replay:
        from vlib import replay
        sys.exit(replay.run(pid, a.replay))
    ctx = core.Ctx(pid, a.tier, seed)
    try:
        mod = importlib.import_module('props.' + pid.lower())
        mod.run(ctx)
    except Exception:
        traceback.print_exc()
        ctx.inconclusive.append('driver exception (see traceback)')
    rc = ctx.finish()
    sys.exit(rc)


if __name__ == '__main__':
    main()
