// Native replay of a Kani counterexample for property C13, harness c13_neg_two, failed check "C13:neg:two:sound".
// Re-run: /verif/check C13 --replay /verif/replays/C13/c13_neg_two.rs   (appends this test to the harness module of a fresh scratch copy of
// /repo and runs `cargo kani playback -Z concrete-playback`, i.e. the harness body natively on these bytes).
// harness-file: kani_c13.rs
#[test]
fn kani_concrete_playback_c13_neg_two_996280183377135378() {
    let concrete_vals: Vec<Vec<u8>> = vec![
        // -513
        vec![255, 253, 255, 255],
        // -2
        vec![254, 255, 255, 255],
        // -513
        vec![255, 253, 255, 255],
    ];
    kani::concrete_playback_run(concrete_vals, c13_neg_two);
}

