// Native replay of a Kani counterexample for property C13, harness c13_mul_neg_two, failed check "C13:mul-scalar:neg:two:sound".
// Re-run: /verif/check C13 --replay /verif/replays/C13/c13_mul_neg_two.rs   (appends this test to the harness module of a fresh scratch copy of
// /repo and runs `cargo kani playback -Z concrete-playback`, i.e. the harness body natively on these bytes).
// harness-file: kani_c13.rs
#[test]
fn kani_concrete_playback_c13_mul_neg_two_2313990626969897996() {
    let concrete_vals: Vec<Vec<u8>> = vec![
        // 0
        vec![0, 0, 0, 0],
        // 8
        vec![8, 0, 0, 0],
        // -64
        vec![192, 255, 255, 255],
        // 0
        vec![0, 0, 0, 0],
    ];
    kani::concrete_playback_run(concrete_vals, c13_mul_neg_two);
}

