// Native replay of a Kani counterexample for property C13, harness c13_div_pos_lower, failed check "C13:div-scalar:pos:lower:shape".
// Re-run: /verif/check C13 --replay /verif/replays/C13/c13_div_pos_lower.rs   (appends this test to the harness module of a fresh scratch copy of
// /repo and runs `cargo kani playback -Z concrete-playback`, i.e. the harness body natively on these bytes).
// harness-file: kani_c13.rs
#[test]
fn kani_concrete_playback_c13_div_pos_lower_2689768821441621135() {
    let concrete_vals: Vec<Vec<u8>> = vec![
        // -9
        vec![247, 255, 255, 255],
        // 15
        vec![15, 0, 0, 0],
        // 64
        vec![64, 0, 0, 0],
        // 0
        vec![0, 0, 0, 0],
    ];
    kani::concrete_playback_run(concrete_vals, c13_div_pos_lower);
}

