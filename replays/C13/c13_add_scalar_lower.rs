// Native replay of a Kani counterexample for property C13, harness c13_add_scalar_lower, failed check "C13:add-scalar:lower:shape".
// Re-run: /verif/check C13 --replay /verif/replays/C13/c13_add_scalar_lower.rs   (appends this test to the harness module of a fresh scratch copy of
// /repo and runs `cargo kani playback -Z concrete-playback`, i.e. the harness body natively on these bytes).
// harness-file: kani_c13.rs
#[test]
fn kani_concrete_playback_c13_add_scalar_lower_4242385815686409279() {
    let concrete_vals: Vec<Vec<u8>> = vec![
        // -1
        vec![255, 255, 255, 255],
        // -1
        vec![255, 255, 255, 255],
        // -1
        vec![255, 255, 255, 255],
        // -1
        vec![255, 255, 255, 255],
    ];
    kani::concrete_playback_run(concrete_vals, c13_add_scalar_lower);
}

