// Native replay of a Kani counterexample for property C13, harness c13_div_neg_two, failed check "C13:div-scalar:neg:two:sound".
// Re-run: /verif/check C13 --replay /verif/replays/C13/c13_div_neg_two.rs   (appends this test to the harness module of a fresh scratch copy of
// /repo and runs `cargo kani playback -Z concrete-playback`, i.e. the harness body natively on these bytes).
// harness-file: kani_c13.rs
#[test]
fn kani_concrete_playback_c13_div_neg_two_16250291312078270888() {
    let concrete_vals: Vec<Vec<u8>> = vec![
        // -99
        vec![157, 255, 255, 255],
        // -1
        vec![255, 255, 255, 255],
        // -99
        vec![157, 255, 255, 255],
        // -1
        vec![255, 255, 255, 255],
    ];
    kani::concrete_playback_run(concrete_vals, c13_div_neg_two);
}

