// Native replay of a Kani counterexample for property C13, harness c13_mul_pos_lower, failed check "C13:mul-scalar:pos:lower:shape".
// Re-run: /verif/check C13 --replay /verif/replays/C13/c13_mul_pos_lower.rs   (appends this test to the harness module of a fresh scratch copy of
// /repo and runs `cargo kani playback -Z concrete-playback`, i.e. the harness body natively on these bytes).
// harness-file: kani_c13.rs
#[test]
fn kani_concrete_playback_c13_mul_pos_lower_17474857931306131625() {
    let concrete_vals: Vec<Vec<u8>> = vec![
        // -132
        vec![124, 255, 255, 255],
        // 0
        vec![0, 0, 0, 0],
        // 47
        vec![47, 0, 0, 0],
        // 0
        vec![0, 0, 0, 0],
    ];
    kani::concrete_playback_run(concrete_vals, c13_mul_pos_lower);
}

