// Native replay of a Kani counterexample for property C07, harness c07_intersects_i8_lower_two, failed check "C07:intersects:lower-two".
// Re-run: /verif/check C07 --replay /verif/replays/C07/c07_intersects_i8_lower_two.rs   (appends this test to the harness module of a fresh scratch copy of
// /repo and runs `cargo kani playback -Z concrete-playback`, i.e. the harness body natively on these bytes).
// harness-file: kani_c07.rs
#[test]
fn kani_concrete_playback_c07_intersects_i8_lower_two_2636573569073478800() {
    let concrete_vals: Vec<Vec<u8>> = vec![
        // 185
        vec![185],
        // -90
        vec![166],
        // -90
        vec![166],
        // 189
        vec![189],
        // -89
        vec![167],
        // -74
        vec![182],
    ];
    kani::concrete_playback_run(concrete_vals, c07_intersects_i8_lower_two);
}

