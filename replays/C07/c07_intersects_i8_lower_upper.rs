// Native replay of a Kani counterexample for property C07, harness c07_intersects_i8_lower_upper, failed check "C07:intersects:lower-upper".
// Re-run: /verif/check C07 --replay /verif/replays/C07/c07_intersects_i8_lower_upper.rs   (appends this test to the harness module of a fresh scratch copy of
// /repo and runs `cargo kani playback -Z concrete-playback`, i.e. the harness body natively on these bytes).
// harness-file: kani_c07.rs
#[test]
fn kani_concrete_playback_c07_intersects_i8_lower_upper_12044732828593387329() {
    let concrete_vals: Vec<Vec<u8>> = vec![
        // 185
        vec![185],
        // -28
        vec![228],
        // -28
        vec![228],
        // 184
        vec![184],
        // -1
        vec![255],
        // -1
        vec![255],
    ];
    kani::concrete_playback_run(concrete_vals, c07_intersects_i8_lower_upper);
}

