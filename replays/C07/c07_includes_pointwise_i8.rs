// Native replay of a Kani counterexample for property C07, harness c07_includes_pointwise_i8, failed check "C07:intersects:witness".
// Re-run: /verif/check C07 --replay /verif/replays/C07/c07_includes_pointwise_i8.rs   (appends this test to the harness module of a fresh scratch copy of
// /repo and runs `cargo kani playback -Z concrete-playback`, i.e. the harness body natively on these bytes).
// harness-file: kani_c07.rs
#[test]
fn kani_concrete_playback_c07_includes_pointwise_i8_1418628695431910907() {
    let concrete_vals: Vec<Vec<u8>> = vec![
        // 254
        vec![254],
        // 96
        vec![96],
        // 118
        vec![118],
        // 255
        vec![255],
        // 116
        vec![116],
        // 117
        vec![117],
        // 117
        vec![117],
    ];
    kani::concrete_playback_run(concrete_vals, c07_includes_pointwise_i8);
}

