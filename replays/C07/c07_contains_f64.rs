// Native replay of a Kani counterexample for property C07, harness c07_contains_f64, failed check "C07:rangebounds:f64".
// Re-run: /verif/check C07 --replay /verif/replays/C07/c07_contains_f64.rs   (appends this test to the harness module of a fresh scratch copy of
// /repo and runs `cargo kani playback -Z concrete-playback`, i.e. the harness body natively on these bytes).
// harness-file: kani_c07.rs
#[test]
fn kani_concrete_playback_c07_contains_f64_6190176405367462864() {
    let concrete_vals: Vec<Vec<u8>> = vec![
        // 191
        vec![191],
        // -2
        vec![255, 255, 255, 255, 255, 255, 255, 191],
        // -0
        vec![0, 0, 0, 0, 0, 0, 0, 128],
        // -0
        vec![0, 0, 0, 0, 0, 0, 0, 128],
    ];
    kani::concrete_playback_run(concrete_vals, c07_contains_f64);
}

