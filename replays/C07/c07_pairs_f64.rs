// Native replay of a Kani counterexample for property C07, harness c07_pairs_f64, failed check "C07:intersects:f64".
// Re-run: /verif/check C07 --replay /verif/replays/C07/c07_pairs_f64.rs   (appends this test to the harness module of a fresh scratch copy of
// /repo and runs `cargo kani playback -Z concrete-playback`, i.e. the harness body natively on these bytes).
// harness-file: kani_c07.rs
#[test]
fn kani_concrete_playback_c07_pairs_f64_6155147057111890944() {
    let concrete_vals: Vec<Vec<u8>> = vec![
        // 189
        vec![189],
        // -0
        vec![0, 0, 0, 0, 0, 0, 0, 128],
        // 0
        vec![0, 0, 0, 0, 0, 0, 0, 0],
        // 184
        vec![184],
        // -9.881313e-324
        vec![2, 0, 0, 0, 0, 0, 0, 128],
        // -4.940656e-324
        vec![1, 0, 0, 0, 0, 0, 0, 128],
    ];
    kani::concrete_playback_run(concrete_vals, c07_pairs_f64);
}

