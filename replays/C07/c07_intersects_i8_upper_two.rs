// Native replay of a Kani counterexample for property C07, harness c07_intersects_i8_upper_two, failed check "C07:intersects:upper-two:symmetry".
// Re-run: /verif/check C07 --replay /verif/replays/C07/c07_intersects_i8_upper_two.rs   (appends this test to the harness module of a fresh scratch copy of
// /repo and runs `cargo kani playback -Z concrete-playback`, i.e. the harness body natively on these bytes).
// harness-file: kani_c07.rs
#[test]
fn kani_concrete_playback_c07_intersects_i8_upper_two_13773415035603566109() {
    let concrete_vals: Vec<Vec<u8>> = vec![
        // 184
        vec![184],
        // -66
        vec![190],
        // -1
        vec![255],
        // 189
        vec![189],
        // -65
        vec![191],
        // 126
        vec![126],
    ];
    kani::concrete_playback_run(concrete_vals, c07_intersects_i8_upper_two);
}

