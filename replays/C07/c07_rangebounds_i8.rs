// Native replay of a Kani counterexample for property C07, harness c07_rangebounds_i8, failed check "C07:rangebounds".
// Re-run: /verif/check C07 --replay /verif/replays/C07/c07_rangebounds_i8.rs   (appends this test to the harness module of a fresh scratch copy of
// /repo and runs `cargo kani playback -Z concrete-playback`, i.e. the harness body natively on these bytes).
// harness-file: kani_c07.rs
#[test]
fn kani_concrete_playback_c07_rangebounds_i8_9404836690975596300() {
    let concrete_vals: Vec<Vec<u8>> = vec![
        // 248
        vec![248],
        // 42
        vec![42],
        // 106
        vec![106],
        // 106
        vec![106],
    ];
    kani::concrete_playback_run(concrete_vals, c07_rangebounds_i8);
}

