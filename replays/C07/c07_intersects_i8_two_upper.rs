// Native replay of a Kani counterexample for property C07, harness c07_intersects_i8_two_upper, failed check "C07:intersects:two-upper".
// Re-run: /verif/check C07 --replay /verif/replays/C07/c07_intersects_i8_two_upper.rs   (appends this test to the harness module of a fresh scratch copy of
// /repo and runs `cargo kani playback -Z concrete-playback`, i.e. the harness body natively on these bytes).
// harness-file: kani_c07.rs
#[test]
fn kani_concrete_playback_c07_intersects_i8_two_upper_338568146428457946() {
    let concrete_vals: Vec<Vec<u8>> = vec![
        // 189
        vec![189],
        // -1
        vec![255],
        // -1
        vec![255],
        // 184
        vec![184],
        // -126
        vec![130],
        // -1
        vec![255],
    ];
    kani::concrete_playback_run(concrete_vals, c07_intersects_i8_two_upper);
}

