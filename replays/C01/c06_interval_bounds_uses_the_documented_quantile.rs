// Native replay of a Kani counterexample for property C01, harness c06_interval_bounds_uses_the_documented_quantile, failed check "C06:interval_bounds:t-quantile-argument".
// Re-run: /verif/check C01 --replay /verif/replays/C01/c06_interval_bounds_uses_the_documented_quantile.rs   (appends this test to the harness module of a fresh scratch copy of
// /repo and runs `cargo kani playback -Z concrete-playback`, i.e. the harness body natively on these bytes).
// harness-file: kani_stats.rs
#[test]
fn kani_concrete_playback_c06_interval_bounds_uses_the_documented_quantile_10271907136658692047() {
    let concrete_vals: Vec<Vec<u8>> = vec![
        // 1.491668e-154
        vec![255, 255, 255, 255, 255, 255, 255, 31],
        // 185
        vec![185],
        // 2
        vec![255, 255, 255, 255, 255, 255, 255, 63],
        // -0
        vec![0, 0, 0, 0, 0, 0, 0, 128],
        // 1
        vec![0, 0, 0, 0, 0, 0, 240, 63],
        // 2
        vec![255, 255, 255, 255, 255, 255, 255, 63],
    ];
    kani::concrete_playback_run(concrete_vals, c06_interval_bounds_uses_the_documented_quantile);
}

