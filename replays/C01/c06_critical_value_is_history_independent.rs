// Native replay of a Kani counterexample for property C01, harness c06_critical_value_is_history_independent, failed check "C06:t_value:history-dependent".
// Re-run: /verif/check C01 --replay /verif/replays/C01/c06_critical_value_is_history_independent.rs   (appends this test to the harness module of a fresh scratch copy of
// /repo and runs `cargo kani playback -Z concrete-playback`, i.e. the harness body natively on these bytes).
// harness-file: kani_stats.rs
#[test]
fn kani_concrete_playback_c06_critical_value_is_history_independent_2383766697731785130() {
    let concrete_vals: Vec<Vec<u8>> = vec![
        // 4.940656e-324
        vec![1, 0, 0, 0, 0, 0, 0, 0],
        // 189
        vec![189],
        // 1.084202e-19
        vec![0, 0, 0, 0, 0, 0, 0, 60],
        // 185
        vec![185],
        // -0
        vec![0, 0, 0, 0, 0, 0, 0, 128],
        // -0
        vec![0, 0, 0, 0, 0, 0, 0, 128],
        // -0
        vec![0, 0, 0, 0, 0, 0, 0, 128],
        // -0
        vec![0, 0, 0, 0, 0, 0, 0, 128],
    ];
    kani::concrete_playback_run(concrete_vals, c06_critical_value_is_history_independent);
}

