#!/usr/bin/env python3
"""Markdown table of the seeded changes and which check caught them (from seeded/*/meta.json + detection.json)."""
import json, os, glob, re
V = os.path.dirname(os.path.dirname(os.path.abspath(__file__)))
rows = []
for d in sorted(glob.glob(os.path.join(V, 'seeded', '*'))):
    sid = os.path.basename(d)
    if not os.path.isdir(d):
        continue
    meta = json.load(open(os.path.join(d, 'meta.json'))) if os.path.exists(os.path.join(d, 'meta.json')) else {}
    det = json.load(open(os.path.join(d, 'detection.json'))) if os.path.exists(os.path.join(d, 'detection.json')) else {}
    rd = open(os.path.join(d, 'README.md')).read() if os.path.exists(os.path.join(d, 'README.md')) else ''
    title = meta.get('summary') or ''
    caught = []
    for p, r in sorted(det.items()):
        what = ''
        for l in r.get('lines', []):
            m = re.search(r'\(([A-Za-z0-9_:.\- ]+)\)\s*$', l)
            if l.strip().startswith('what:') and m:
                what = m.group(1)
                break
        caught.append('%s: %s%s' % (p, 'VIOLATION' if r.get('detected') else ('inconclusive' if r.get('exit') == 2 else 'not detected'), (' [' + what + ']') if what and r.get('detected') else ''))
    if meta.get('neutralised_by'):
        caught = ['%s: exit %s — the change no longer breaks the property since fix %s (its demonstration passes); exit 0 is the right answer' % (p, r.get('exit'), meta['neutralised_by']) for p, r in sorted(det.items())]
    rows.append('| %s | %s | %s | %s |' % (sid, ('at the time; neutralised by ' + meta['neutralised_by']) if meta.get('neutralised_by') else 'yes' if meta.get('confirmed') else 'no', (meta.get('one_line') or '').replace('|', '/'), '; '.join(caught)))
print('| seeded change | confirmed | what it is / what it needs | checks run against it (quick tier) |')
print('|---|---|---|---|')
print('\n'.join(rows))
