#!/usr/bin/env python3
"""Confirm seeded changes independently: in a scratch worktree of /repo (outside /repo and /verif) the patch applies,
the full existing suite stays green with it, the demonstration fails with it and passes without it.
Writes seeded/<id>/meta.json. Usage: tools/verify_seeded.py [ids...]"""
import json, os, re, subprocess, sys, shutil, time
V = os.path.dirname(os.path.dirname(os.path.abspath(__file__)))
WT = '/tmp/wt-verify'
ENV = dict(os.environ, CARGO_NET_OFFLINE='true', CARGO_TARGET_DIR=WT + '-target')

def sh(cmd, cwd=None, timeout=1800):
    p = subprocess.run(cmd, cwd=cwd, env=ENV, capture_output=True, text=True, timeout=timeout, shell=isinstance(cmd, str))
    return p.returncode, p.stdout + p.stderr

def main():
    ids = sys.argv[1:] or sorted(os.listdir(os.path.join(V, 'seeded')))
    if not os.path.exists(WT):
        rc, out = sh(['git', '-C', '/repo', 'worktree', 'add', '--detach', WT, 'HEAD']); assert rc == 0, out
    else:
        sh('git checkout -q --detach %s && git checkout -- . && git clean -fdq tests' % subprocess.run(['git','-C','/repo','rev-parse','HEAD'],capture_output=True,text=True).stdout.strip(), cwd=WT)
    for i in ids:
        d = os.path.join(V, 'seeded', i)
        if not os.path.exists(os.path.join(d, 'patch.diff')): continue
        meta = {'id': i, 'property': i.split('-')[0], 'repo_head': subprocess.run(['git','-C','/repo','rev-parse','--short','HEAD'],capture_output=True,text=True).stdout.strip()}
        sh('git checkout -- . && git clean -fdq tests src', cwd=WT)
        demo = 'tests/seeded_demo.rs'
        shutil.copy(os.path.join(d, 'demo.rs'), os.path.join(WT, demo))
        head = ''.join(open(os.path.join(d, 'demo.rs')).readlines()[:25])
        fm = re.search(r'--features[ =]([\w,]+)', head)
        feat = ['--features', fm.group(1)] if fm else []
        rc0, out0 = sh(['cargo', 'test', '--offline', '--test', 'seeded_demo'] + feat, cwd=WT)
        meta['demo_passes_without_change'] = rc0 == 0
        rc, out = sh(['git', 'apply', os.path.join(d, 'patch.diff')], cwd=WT)
        meta['patch_applies'] = rc == 0
        if rc == 0:
            rc1, out1 = sh(['cargo', 'test', '--offline', '--test', 'seeded_demo'] + feat, cwd=WT)
            meta['demo_fails_with_change'] = rc1 != 0
            meta['demo_failure_excerpt'] = '\n'.join([l for l in out1.split('\n') if 'panicked' in l or 'FAILED' in l or 'assert' in l][:6])
            os.remove(os.path.join(WT, demo))
            rc2, out2 = sh(['cargo', 'test', '--offline', '--no-fail-fast'], cwd=WT)
            res = re.findall(r'test result: (\w+)\. (\d+) passed; (\d+) failed', out2)
            meta['suite_green_with_change'] = rc2 == 0 and all(r[0] == 'ok' for r in res)
            meta['suite_results'] = ['%s %s passed %s failed' % r for r in res]
        meta['what_ran'] = 'scratch worktree %s of /repo HEAD: cargo test --offline --test seeded_demo (without / with patch); cargo test --offline --no-fail-fast with patch' % WT
        meta['confirmed'] = bool(meta.get('patch_applies') and meta.get('demo_passes_without_change') and meta.get('demo_fails_with_change') and meta.get('suite_green_with_change'))
        readme = open(os.path.join(d, 'README.md')).read() if os.path.exists(os.path.join(d, 'README.md')) else ''
        meta['needs_to_manifest'] = meta.get('needs_to_manifest') or readme[:0]
        old = {}
        mp = os.path.join(d, 'meta.json')
        if os.path.exists(mp):
            old = json.load(open(mp))
        old.update(meta)
        json.dump(old, open(mp, 'w'), indent=1)
        print(i, 'confirmed' if meta['confirmed'] else 'NOT CONFIRMED', {k: v for k, v in meta.items() if k.startswith(('patch', 'demo_p', 'demo_f', 'suite_g'))}, flush=True)
        sh('git checkout -- . && git clean -fdq tests src', cwd=WT)

if __name__ == '__main__':
    main()
