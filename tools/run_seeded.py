#!/usr/bin/env python3
"""Run registered checks against a seeded change: apply the patch to /repo, run ./check <prop>, ALWAYS revert.
Usage: tools/run_seeded.py <seed-id> [prop ...]   (default prop = the seed's own property). Results appended to seeded/<id>/detection.json"""
import json, os, subprocess, sys, time
V = os.path.dirname(os.path.dirname(os.path.abspath(__file__)))
sid = sys.argv[1]
props = sys.argv[2:] or [sid.split('-')[0]]
d = os.path.join(V, 'seeded', sid)
st = subprocess.run(['git', '-C', '/repo', 'status', '--porcelain', '--untracked-files=no'], capture_output=True, text=True).stdout.strip()
assert not st, '/repo has local modifications: ' + st
r = subprocess.run(['git', '-C', '/repo', 'apply', os.path.join(d, 'patch.diff')], capture_output=True, text=True)
assert r.returncode == 0, r.stderr
res = {}
try:
    for p in props:
        t = time.time()
        pr = subprocess.run([os.path.join(V, 'check'), p], cwd=V, capture_output=True, text=True)
        out = pr.stdout + pr.stderr
        lines = [l for l in out.split('\n') if l.startswith(('VIOLATION', 'KNOWN-FINDING', 'INCONCLUSIVE', '  what:')) or ' quick: ' in l]
        res[p] = {'exit': pr.returncode, 'detected': pr.returncode == 1 and 'VIOLATION' in out, 'seconds': round(time.time() - t), 'lines': [l[:400] for l in lines[:12]]}
        print(sid, p, 'exit', pr.returncode, 'DETECTED' if res[p]['detected'] else 'missed', '%ds' % res[p]['seconds'], flush=True)
        for l in lines[:6]:
            print('   ', l[:300])
finally:
    subprocess.run(['git', '-C', '/repo', 'checkout', '--', '.'])
    subprocess.run(['git', '-C', V, 'checkout', '--', 'evidence'], capture_output=True)
dp = os.path.join(d, 'detection.json')
old = json.load(open(dp)) if os.path.exists(dp) else {}
old.update(res)
json.dump(old, open(dp, 'w'), indent=1)
