#!/usr/bin/env python3
"""Developer tool: take a sub-agent's deliverables (<worktree>/out/<X>/{patch.diff,demo.rs,README.md}) into
seeded/<PROP>-<letter>/ (breaking changes) or neutral/<PROP>-N<letter>/ (refactorings), choosing the next free letter.
Usage: tools/ingest_wave.py <worktree> <PROP> <wave> [--neutral]"""
import os, sys, shutil, json, string
V = os.path.dirname(os.path.dirname(os.path.abspath(__file__)))
wt, prop, wave = sys.argv[1], sys.argv[2], int(sys.argv[3])
neutral = '--neutral' in sys.argv
base = os.path.join(V, 'neutral' if neutral else 'seeded')
out = os.path.join(wt, 'out')
made = []
for x in sorted(os.listdir(out)):
    src = os.path.join(out, x)
    if not os.path.exists(os.path.join(src, 'patch.diff')):
        print('skip', src, '(no patch.diff)'); continue
    for L in string.ascii_uppercase:
        name = '%s-%s%s' % (prop, 'N' if neutral else '', L)
        if not os.path.exists(os.path.join(base, name)): break
    d = os.path.join(base, name); os.makedirs(d)
    for f in ('patch.diff', 'demo.rs', 'README.md'):
        if os.path.exists(os.path.join(src, f)): shutil.copy(os.path.join(src, f), os.path.join(d, f))
    if not neutral:
        readme = open(os.path.join(d, 'README.md')).read() if os.path.exists(os.path.join(d, 'README.md')) else ''
        json.dump({'id': name, 'breaks_property': prop, 'wave': wave, 'needs_to_manifest': ' '.join(readme.split())[:700]}, open(os.path.join(d, 'meta.json'), 'w'), indent=1)
    made.append(name)
print(' '.join(made))
