#!/usr/bin/env python3
"""Regenerates section 8.5 of DESIGN.md (the seeded-change table) from seeded/*/meta.json and detection.json."""
import os, re, subprocess
V = os.path.dirname(os.path.dirname(os.path.abspath(__file__)))
table = subprocess.run([os.path.join(V, 'tools', 'seeded_table.py')], capture_output=True, text=True).stdout
p = os.path.join(V, 'DESIGN.md')
s = open(p).read()
begin, end = '<!-- SEEDED-TABLE-BEGIN -->', '<!-- SEEDED-TABLE-END -->'
if begin in s:
    s = s[:s.index(begin) + len(begin)] + '\n' + table + s[s.index(end):]
    open(p, 'w').write(s)
    print('table updated:', table.count('\n') - 2, 'rows')
