#!/bin/sh
# developer convenience: run every registered quick check on the current /repo tree, one after the other
cd "$(dirname "$0")/.."
for p in C01 C02 C03 C04 C05 C06 C07 C08 C09 C10 C11 C13 C14 C15 C16 C17 C18 C19 C20; do
  /usr/bin/time -f "$p wall %es" ./check $p --tier ${1:-quick} 2>&1 | grep -E "quick:|thorough:|VIOLATION|INCONCLUSIVE|KNOWN|wall" | cut -c1-300
done
