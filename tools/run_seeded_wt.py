#!/usr/bin/env python3
"""Developer tool: run checks against a seeded change WITHOUT touching /repo: a scratch worktree of /repo HEAD gets the
patch, and ./check runs with VERIF_REPO pointing at it (evidence/replays diverted to /tmp). Several can run in parallel.
The results recorded in DESIGN.md come from tools/run_seeded.py (patch applied to /repo itself), this one is for iteration.
Usage: tools/run_seeded_wt.py <seed-id> [prop ...]"""
import json, os, subprocess, sys, time, shutil
V = os.path.dirname(os.path.dirname(os.path.abspath(__file__)))
sid = sys.argv[1]
props = sys.argv[2:] or [sid.split('-')[0]]
d = os.path.join(V, 'seeded', sid)
wt = '/tmp/wt-seed-' + sid
subprocess.run(['git', '-C', '/repo', 'worktree', 'remove', '--force', wt], capture_output=True)
r = subprocess.run(['git', '-C', '/repo', 'worktree', 'add', '--detach', wt, 'HEAD'], capture_output=True, text=True)
assert r.returncode == 0, r.stderr
r = subprocess.run(['git', '-C', wt, 'apply', os.path.join(d, 'patch.diff')], capture_output=True, text=True)
assert r.returncode == 0, r.stderr
env = dict(os.environ, VERIF_REPO=wt, VERIF_EVIDENCE_DIR='/tmp/seed-evidence/' + sid, VERIF_REPLAY_DIR='/tmp/seed-replays/' + sid)
res = {}
try:
    for p in props:
        t = time.time()
        pr = subprocess.run([os.path.join(V, 'check'), p], cwd=V, capture_output=True, text=True, env=env)
        out = pr.stdout + pr.stderr
        lines = [l for l in out.split('\n') if l.startswith(('VIOLATION', 'KNOWN-FINDING', 'INCONCLUSIVE', '  what:')) or ' quick: ' in l]
        res[p] = {'exit': pr.returncode, 'detected': pr.returncode == 1 and 'VIOLATION' in out, 'seconds': round(time.time() - t), 'lines': [l[:400] for l in lines[:12]], 'mode': 'worktree'}
        print(sid, p, 'exit', pr.returncode, 'DETECTED' if res[p]['detected'] else 'missed', '%ds' % res[p]['seconds'], flush=True)
        for l in lines[:6]:
            print('   ', l[:300], flush=True)
finally:
    subprocess.run(['git', '-C', '/repo', 'worktree', 'remove', '--force', wt], capture_output=True)
dp = os.path.join(d, 'detection.json')
old = json.load(open(dp)) if os.path.exists(dp) else {}
for k, v in res.items():
    old[k] = v
json.dump(old, open(dp, 'w'), indent=1)
