#!/usr/bin/env python3
"""Developer tool: run several neutral refactorings against several properties with N parallel workers.
Usage: tools/run_neutral_batch.py N 'ID prop prop...' 'ID prop' ..."""
import subprocess, sys, os
from concurrent.futures import ThreadPoolExecutor
V = os.path.dirname(os.path.dirname(os.path.abspath(__file__)))
n = int(sys.argv[1])
def job(spec):
    parts = spec.split()
    p = subprocess.run([os.path.join(V, 'tools', 'run_neutral.py')] + parts, capture_output=True, text=True)
    out = '\n'.join(l for l in (p.stdout + p.stderr).split('\n') if l and 'WARNING conda' not in l)
    print(out, flush=True)
with ThreadPoolExecutor(n) as ex:
    list(ex.map(job, sys.argv[2:]))
