#!/usr/bin/env python3
"""Developer tool: run a property's check against a BEHAVIOUR-PRESERVING refactoring (neutral/<id>/patch.diff) in a scratch
worktree of /repo HEAD (VERIF_REPO); the expected outcome is exit 0 (an exit 1 would be a false alarm, an exit 2 an
inconclusive run on code where the property holds). First confirms that the existing suite stays green with the patch.
Usage: tools/run_neutral.py <neutral-id> [prop ...]"""
import json, os, subprocess, sys, time, re
V = os.path.dirname(os.path.dirname(os.path.abspath(__file__)))
sid = sys.argv[1]
props = [a for a in sys.argv[2:] if not a.startswith('--')] or [sid.split('-')[0]]
d = os.path.join(V, 'neutral', sid)
wt = '/tmp/wt-neutral-' + sid
subprocess.run(['git', '-C', '/repo', 'worktree', 'remove', '--force', wt], capture_output=True)
r = subprocess.run(['git', '-C', '/repo', 'worktree', 'add', '--detach', wt, 'HEAD'], capture_output=True, text=True)
assert r.returncode == 0, r.stderr
r = subprocess.run(['git', '-C', wt, 'apply', os.path.join(d, 'patch.diff')], capture_output=True, text=True)
assert r.returncode == 0, r.stderr
res = {}
try:
    if '--no-suite' not in sys.argv:
        env = dict(os.environ, CARGO_NET_OFFLINE='true', CARGO_TARGET_DIR='/tmp/wt-neutral-target')
        pr = subprocess.run(['cargo', 'test', '--offline', '--no-fail-fast'], cwd=wt, env=env, capture_output=True, text=True)
        tr = re.findall(r'test result: (\w+)\. (\d+) passed; (\d+) failed', pr.stdout + pr.stderr)
        res['suite_green'] = pr.returncode == 0 and all(x[0] == 'ok' for x in tr)
        print(sid, 'suite', 'green' if res['suite_green'] else 'NOT GREEN', tr, flush=True)
    env = dict(os.environ, VERIF_REPO=wt, VERIF_EVIDENCE_DIR='/tmp/neutral-evidence/' + sid, VERIF_REPLAY_DIR='/tmp/neutral-replays/' + sid)
    for p in [x for x in props if not x.startswith('--')]:
        t = time.time()
        pr = subprocess.run([os.path.join(V, 'check'), p], cwd=V, capture_output=True, text=True, env=env)
        out = pr.stdout + pr.stderr
        lines = [l for l in out.split('\n') if l.startswith(('VIOLATION', 'KNOWN-FINDING', 'INCONCLUSIVE', '  what:')) or ' quick: ' in l]
        res[p] = {'exit': pr.returncode, 'seconds': round(time.time() - t), 'lines': [l[:400] for l in lines[:12]]}
        print(sid, p, 'exit', pr.returncode, {0: 'HELD (expected)', 1: 'FALSE ALARM', 2: 'inconclusive'}.get(pr.returncode, '?'), '%ds' % res[p]['seconds'], flush=True)
        for l in lines[:6]:
            print('   ', l[:300], flush=True)
finally:
    subprocess.run(['git', '-C', '/repo', 'worktree', 'remove', '--force', wt], capture_output=True)
rp = os.path.join(d, 'result.json')
old = json.load(open(rp)) if os.path.exists(rp) else {}
old.update(res)
json.dump(old, open(rp, 'w'), indent=1)
