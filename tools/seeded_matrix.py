#!/usr/bin/env python3
"""Run every seeded change against its own property's check (worktree mode), N at a time. Usage: tools/seeded_matrix.py [-j N] [ids...]"""
import os, subprocess, sys, glob
from concurrent.futures import ThreadPoolExecutor
V = os.path.dirname(os.path.dirname(os.path.abspath(__file__)))
args = sys.argv[1:]
j = 3
if args and args[0] == '-j':
    j = int(args[1]); args = args[2:]
ids = args or sorted(os.path.basename(d) for d in glob.glob(os.path.join(V, 'seeded', '*')) if os.path.isdir(d))
def one(i):
    r = subprocess.run([os.path.join(V, 'tools', 'run_seeded_wt.py'), i], capture_output=True, text=True)
    print(r.stdout + r.stderr[-500:], flush=True)
with ThreadPoolExecutor(j) as ex:
    list(ex.map(one, ids))
