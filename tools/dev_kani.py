#!/usr/bin/env python3
"""Developer loop (not a registered check): persistent scratch copy at /var/tmp/sv-dev, re-synced from /repo and
/verif/kani, then `cargo kani` on the given harness filters. Usage: tools/dev_kani.py [-t SECS] [--features F] filter..."""
import os, sys, shutil, re, subprocess, time
sys.path.insert(0, os.path.dirname(os.path.dirname(os.path.abspath(__file__))))
from vlib import core
args = sys.argv[1:]
timeout = 600; feats = None; raw = False
while args and args[0].startswith('-'):
    if args[0] == '-t': timeout = int(args[1]); args = args[2:]
    elif args[0] == '--features': feats = args[1]; args = args[2:]
    elif args[0] == '--raw': raw = True; args = args[1:]
D = '/var/tmp/sv-dev' + ('' if not feats else '-' + re.sub(r'\W', '_', feats))
class Dev(core.Scratch):
    def __init__(self):
        self.dir = D; self.features = feats
        os.makedirs(D, exist_ok=True)
        shutil.rmtree(os.path.join(D, 'src'), ignore_errors=True)
        for name in ('src', 'Cargo.toml', 'Cargo.lock', 'README.md'):
            p = os.path.join(core.REPO, name)
            if os.path.isdir(p): shutil.copytree(p, os.path.join(D, name))
            else: shutil.copy(p, os.path.join(D, name))
        ct = os.path.join(D, 'Cargo.toml'); s = open(ct).read(); s = re.sub(r'\[\[bench\]\][^\[]*', '', s) + '\n[workspace]\n'; open(ct, 'w').write(s)
        os.makedirs(os.path.join(D, '.cargo'), exist_ok=True); open(os.path.join(D, '.cargo', 'config.toml'), 'w').write('[net]\noffline = true\n')
        self.harness_files = {}; self.install_harnesses()
sc = Dev()
t = time.time()
r = core.kani_run(sc, args, harness_timeout=timeout)
if raw or r['build_failed'] or not r['results']:
    print(r['out'][-6000:])
for n, h in sorted(r['results'].items()):
    print('%-60s %-8s %6.1fs checks=%d covers=%s %s' % (h.short(), h.status, h.time, h.nchecks, h.covers, [c[0] for c in h.failed_checks]))
print('total %.0fs' % (time.time() - t))
