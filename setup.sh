#!/bin/sh
# Builds nothing persistent: every check regenerates its encoding from /repo. This only verifies tool presence.
set -e
cd "$(dirname "$0")"
for t in cargo z3 z3-new cvc5 /usr/bin/python3; do command -v $t >/dev/null || { echo "missing tool: $t"; exit 1; }; done
CARGO_NET_OFFLINE=true cargo kani --version >/dev/null
rustup toolchain list | grep -q nightly || { echo "missing nightly toolchain"; exit 1; }
/usr/bin/python3 -c "import sys; sys.path.insert(0,'.'); import vlib.core"
echo setup ok
