// C13 — interval arithmetic is sound and tight for the denoted sets.
// Engine K on Interval<i32> with bounds/probes in a stated box; one harness per (operation, operand kind,
// scalar sign) so that a failure is attributed to its role.
use super::*;

const B: i32 = 1000; // bounds of interval endpoints and probes
const INF: i64 = 1_000_000_000;

fn mk(k: u8, a: i32, b: i32) -> Interval<i32> {
    match k {
        0 => Interval::TwoSided(a, b),
        1 => Interval::UpperOneSided(a),
        _ => Interval::LowerOneSided(b),
    }
}
fn any_iv(k: u8) -> (i32, i32, Interval<i32>) {
    let a: i32 = kani::any();
    let b: i32 = kani::any();
    kani::assume(-B <= a && a <= B && -B <= b && b <= B);
    if k == 0 {
        kani::assume(a <= b);
    }
    (a, b, mk(k, a, b))
}
fn lo(i: &Interval<i32>) -> i64 {
    match i {
        Interval::TwoSided(a, _) | Interval::UpperOneSided(a) => *a as i64,
        _ => -INF,
    }
}
fn hi(i: &Interval<i32>) -> i64 {
    match i {
        Interval::TwoSided(_, b) | Interval::LowerOneSided(b) => *b as i64,
        _ => INF,
    }
}
fn member(k: u8, a: i32, b: i32) -> i32 {
    let x: i32 = kani::any();
    kani::assume(-3 * B <= x && x <= 3 * B);
    kani::assume(if k == 2 { true } else { a <= x } && if k == 1 { true } else { x <= b });
    x
}

// scalar operations. $sign: 1 => k > 0, -1 => k < 0, 0 => any k (used where the sign is irrelevant)
macro_rules! scalar_case {
    ($name:ident, $kind:expr, $sign:expr, $krange:expr, $op:tt, $flip:expr, $l_sound:expr, $l_shape:expr, $l_tight:expr) => {
        #[kani::proof]
        fn $name() {
            let (a, b, i) = any_iv($kind);
            let k: i32 = kani::any();
            kani::assume(-$krange <= k && k <= $krange);
            kani::assume(if $sign > 0 { k > 0 } else if $sign < 0 { k < 0 } else { true });
            let x = member($kind, a, b);
            let r = i $op k;
            kani::cover!(true, "reachable");
            // soundness: the image of a member is a member of the result
            assert!(lo(&r) <= (x $op k) as i64 && (x $op k) as i64 <= hi(&r), $l_sound);
            assert!(r.contains(&(x $op k)), $l_sound);
            // shape: unbounded on exactly the side the true image is unbounded; well-formed
            let flip: bool = $flip && k < 0;
            let (unb_lo, unb_hi) = if flip { ($kind == 1, $kind == 2) } else { ($kind == 2, $kind == 1) };
            assert!((lo(&r) == -INF) == unb_lo && (hi(&r) == INF) == unb_hi, $l_shape);
            assert!(lo(&r) <= hi(&r), $l_shape);
            // tightness: every finite bound is the image of the corresponding endpoint
            let (e_lo, e_hi) = if flip { (b, a) } else { (a, b) };
            if lo(&r) != -INF {
                assert!(lo(&r) == (e_lo $op k) as i64, $l_tight);
            }
            if hi(&r) != INF {
                assert!(hi(&r) == (e_hi $op k) as i64, $l_tight);
            }
        }
    };
}
// +, - : the sign of the scalar is irrelevant (no flip)
scalar_case!(c13_add_scalar_two, 0, 0, 1000, +, false, "C13:add-scalar:two:sound", "C13:add-scalar:two:shape", "C13:add-scalar:two:tight");
scalar_case!(c13_add_scalar_upper, 1, 0, 1000, +, false, "C13:add-scalar:upper:sound", "C13:add-scalar:upper:shape", "C13:add-scalar:upper:tight");
scalar_case!(c13_add_scalar_lower, 2, 0, 1000, +, false, "C13:add-scalar:lower:sound", "C13:add-scalar:lower:shape", "C13:add-scalar:lower:tight");
scalar_case!(c13_sub_scalar_two, 0, 0, 1000, -, false, "C13:sub-scalar:two:sound", "C13:sub-scalar:two:shape", "C13:sub-scalar:two:tight");
scalar_case!(c13_sub_scalar_upper, 1, 0, 1000, -, false, "C13:sub-scalar:upper:sound", "C13:sub-scalar:upper:shape", "C13:sub-scalar:upper:tight");
scalar_case!(c13_sub_scalar_lower, 2, 0, 1000, -, false, "C13:sub-scalar:lower:sound", "C13:sub-scalar:lower:shape", "C13:sub-scalar:lower:tight");
// *, / : positive and negative scalars separately (a negative scalar mirrors the set)
scalar_case!(c13_mul_pos_two, 0, 1, 100, *, true, "C13:mul-scalar:pos:two:sound", "C13:mul-scalar:pos:two:shape", "C13:mul-scalar:pos:two:tight");
scalar_case!(c13_mul_pos_upper, 1, 1, 100, *, true, "C13:mul-scalar:pos:upper:sound", "C13:mul-scalar:pos:upper:shape", "C13:mul-scalar:pos:upper:tight");
scalar_case!(c13_mul_pos_lower, 2, 1, 100, *, true, "C13:mul-scalar:pos:lower:sound", "C13:mul-scalar:pos:lower:shape", "C13:mul-scalar:pos:lower:tight");
scalar_case!(c13_mul_neg_two, 0, -1, 100, *, true, "C13:mul-scalar:neg:two:sound", "C13:mul-scalar:neg:two:shape", "C13:mul-scalar:neg:two:tight");
scalar_case!(c13_mul_neg_upper, 1, -1, 100, *, true, "C13:mul-scalar:neg:upper:sound", "C13:mul-scalar:neg:upper:shape", "C13:mul-scalar:neg:upper:tight");
scalar_case!(c13_mul_neg_lower, 2, -1, 100, *, true, "C13:mul-scalar:neg:lower:sound", "C13:mul-scalar:neg:lower:shape", "C13:mul-scalar:neg:lower:tight");
scalar_case!(c13_div_pos_two, 0, 1, 100, /, true, "C13:div-scalar:pos:two:sound", "C13:div-scalar:pos:two:shape", "C13:div-scalar:pos:two:tight");
scalar_case!(c13_div_pos_upper, 1, 1, 100, /, true, "C13:div-scalar:pos:upper:sound", "C13:div-scalar:pos:upper:shape", "C13:div-scalar:pos:upper:tight");
scalar_case!(c13_div_pos_lower, 2, 1, 100, /, true, "C13:div-scalar:pos:lower:sound", "C13:div-scalar:pos:lower:shape", "C13:div-scalar:pos:lower:tight");
scalar_case!(c13_div_neg_two, 0, -1, 100, /, true, "C13:div-scalar:neg:two:sound", "C13:div-scalar:neg:two:shape", "C13:div-scalar:neg:two:tight");
scalar_case!(c13_div_neg_upper, 1, -1, 100, /, true, "C13:div-scalar:neg:upper:sound", "C13:div-scalar:neg:upper:shape", "C13:div-scalar:neg:upper:tight");
scalar_case!(c13_div_neg_lower, 2, -1, 100, /, true, "C13:div-scalar:neg:lower:sound", "C13:div-scalar:neg:lower:shape", "C13:div-scalar:neg:lower:tight");

// multiplication by zero: the image is {0}; the result must contain 0 and stay well-formed
#[kani::proof]
fn c13_mul_zero() {
    let kind: u8 = kani::any::<u8>() % 3;
    let (_a, _b, i) = any_iv(kind);
    let r = i * 0;
    assert!(r.contains(&0) && lo(&r) <= hi(&r), "C13:mul-scalar:zero:sound");
}

macro_rules! neg_case {
    ($name:ident, $kind:expr, $l_sound:expr, $l_shape:expr, $l_tight:expr) => {
        #[kani::proof]
        fn $name() {
            let (a, b, i) = any_iv($kind);
            let x = member($kind, a, b);
            let r = -i;
            assert!(r.contains(&(-x)), $l_sound);
            assert!((lo(&r) == -INF) == ($kind == 1) && (hi(&r) == INF) == ($kind == 2) && lo(&r) <= hi(&r), $l_shape);
            if lo(&r) != -INF {
                assert!(lo(&r) == -(b as i64), $l_tight);
            }
            if hi(&r) != INF {
                assert!(hi(&r) == -(a as i64), $l_tight);
            }
        }
    };
}
neg_case!(c13_neg_two, 0, "C13:neg:two:sound", "C13:neg:two:shape", "C13:neg:two:tight");
neg_case!(c13_neg_upper, 1, "C13:neg:upper:sound", "C13:neg:upper:shape", "C13:neg:upper:tight");
neg_case!(c13_neg_lower, 2, "C13:neg:lower:sound", "C13:neg:lower:shape", "C13:neg:lower:tight");

// interval (+|-) interval, compatible kind pairs
macro_rules! pair_case {
    ($name:ident, $ka:expr, $kb:expr, $op:tt, $is_sub:expr, $l_sound:expr, $l_shape:expr, $l_tight:expr) => {
        #[kani::proof]
        fn $name() {
            let (a1, a2, ia) = any_iv($ka);
            let (b1, b2, ib) = any_iv($kb);
            let x = member($ka, a1, a2);
            let y = member($kb, b1, b2);
            let r = ia $op ib;
            assert!(r.contains(&(x $op y)), $l_sound);
            // true image: [lo(a) op' .., ..]: for + : [lo a + lo b, hi a + hi b]; for - : [lo a - hi b, hi a - lo b]
            let (b_lo, b_hi) = if $is_sub { (-hi(&ib), -lo(&ib)) } else { (lo(&ib), hi(&ib)) };
            let unb_lo = lo(&ia) == -INF || b_lo == -INF;
            let unb_hi = hi(&ia) == INF || b_hi == INF;
            assert!((lo(&r) == -INF) == unb_lo && (hi(&r) == INF) == unb_hi && lo(&r) <= hi(&r), $l_shape);
            if !unb_lo {
                assert!(lo(&r) == lo(&ia) + b_lo, $l_tight);
            }
            if !unb_hi {
                assert!(hi(&r) == hi(&ia) + b_hi, $l_tight);
            }
        }
    };
}
pair_case!(c13_add_two_two, 0, 0, +, false, "C13:add:two-two:sound", "C13:add:two-two:shape", "C13:add:two-two:tight");
pair_case!(c13_add_two_upper, 0, 1, +, false, "C13:add:two-upper:sound", "C13:add:two-upper:shape", "C13:add:two-upper:tight");
pair_case!(c13_add_two_lower, 0, 2, +, false, "C13:add:two-lower:sound", "C13:add:two-lower:shape", "C13:add:two-lower:tight");
pair_case!(c13_add_upper_two, 1, 0, +, false, "C13:add:upper-two:sound", "C13:add:upper-two:shape", "C13:add:upper-two:tight");
pair_case!(c13_add_upper_upper, 1, 1, +, false, "C13:add:upper-upper:sound", "C13:add:upper-upper:shape", "C13:add:upper-upper:tight");
pair_case!(c13_add_lower_two, 2, 0, +, false, "C13:add:lower-two:sound", "C13:add:lower-two:shape", "C13:add:lower-two:tight");
pair_case!(c13_add_lower_lower, 2, 2, +, false, "C13:add:lower-lower:sound", "C13:add:lower-lower:shape", "C13:add:lower-lower:tight");
pair_case!(c13_sub_two_two, 0, 0, -, true, "C13:sub:two-two:sound", "C13:sub:two-two:shape", "C13:sub:two-two:tight");
pair_case!(c13_sub_two_upper, 0, 1, -, true, "C13:sub:two-upper:sound", "C13:sub:two-upper:shape", "C13:sub:two-upper:tight");
pair_case!(c13_sub_two_lower, 0, 2, -, true, "C13:sub:two-lower:sound", "C13:sub:two-lower:shape", "C13:sub:two-lower:tight");
pair_case!(c13_sub_upper_two, 1, 0, -, true, "C13:sub:upper-two:sound", "C13:sub:upper-two:shape", "C13:sub:upper-two:tight");
pair_case!(c13_sub_upper_lower, 1, 2, -, true, "C13:sub:upper-lower:sound", "C13:sub:upper-lower:shape", "C13:sub:upper-lower:tight");
pair_case!(c13_sub_lower_two, 2, 0, -, true, "C13:sub:lower-two:sound", "C13:sub:lower-two:shape", "C13:sub:lower-two:tight");
pair_case!(c13_sub_lower_upper, 2, 1, -, true, "C13:sub:lower-upper:sound", "C13:sub:lower-upper:shape", "C13:sub:lower-upper:tight");

// documented panics: incompatible one-sided pairs (the marker after the operation must be unreachable)
macro_rules! pair_panics {
    ($name:ident, $ka:expr, $kb:expr, $op:tt, $marker:expr) => {
        #[kani::proof]
        fn $name() {
            let (_a1, _a2, ia) = any_iv($ka);
            let (_b1, _b2, ib) = any_iv($kb);
            let _r = ia $op ib;
            assert!(false, $marker);
        }
    };
}
pair_panics!(c13_add_upper_lower_panics, 1, 2, +, "C13:add:upper-lower:returned");
pair_panics!(c13_add_lower_upper_panics, 2, 1, +, "C13:add:lower-upper:returned");
pair_panics!(c13_sub_upper_upper_panics, 1, 1, -, "C13:sub:upper-upper:returned");
pair_panics!(c13_sub_lower_lower_panics, 2, 2, -, "C13:sub:lower-lower:returned");

// relative_to: result kind per (reference kind, self kind), documented panics; the enclosure itself is
// decided by engine M on the extracted terms (real arithmetic)
fn mkf(k: u8, a: f64, b: f64) -> Interval<f64> {
    match k {
        0 => Interval::TwoSided(a, b),
        1 => Interval::UpperOneSided(a),
        _ => Interval::LowerOneSided(b),
    }
}
#[kani::proof]
fn c13_relative_to_kinds() {
    let ks: u8 = kani::any::<u8>() % 3;
    let kr: u8 = kani::any::<u8>() % 3;
    // not both one-sided in the same direction (documented panic, separate harness)
    kani::assume(!(ks == kr && ks != 0));
    let (x, y, a, b): (f64, f64, f64, f64) = (kani::any(), kani::any(), kani::any(), kani::any());
    kani::assume(x.is_finite() && y.is_finite() && a.is_finite() && b.is_finite());
    kani::assume(0.0 <= x && x <= y && 0.0 < a && a <= b);
    let s = mkf(ks, x, y);
    let r = mkf(kr, a, b);
    let res = s.relative_to(&r);
    // (x - r)/r = x/r - 1 is unbounded above iff self is; it has a finite attained minimum iff self is
    // bounded below and the reference is bounded above
    let want_kind = match (kr, ks) {
        (0, 0) => 0,
        (1, _) | (_, 2) => 2, // reference unbounded above or self unbounded below: only the upper bound survives
        _ => 1,
    };
    let got = match res {
        Interval::TwoSided(..) => 0,
        Interval::UpperOneSided(_) => 1,
        Interval::LowerOneSided(_) => 2,
    };
    kani::cover!(got == 0, "two-sided result");
    kani::cover!(got == 1, "upper result");
    kani::cover!(got == 2, "lower result");
    assert!(got == want_kind, "C13:relative_to:kind");
}
#[kani::proof]
fn c13_relative_to_zero_ref_panics() {
    let ks: u8 = kani::any::<u8>() % 3;
    let kr: u8 = kani::any::<u8>() % 3;
    let (x, y, a, b): (f64, f64, f64, f64) = (kani::any(), kani::any(), kani::any(), kani::any());
    kani::assume(!x.is_nan() && !y.is_nan() && !a.is_nan() && !b.is_nan());
    // a stored reference bound is zero
    kani::assume(match kr {
        0 => a == 0.0 || b == 0.0,
        1 => a == 0.0,
        _ => b == 0.0,
    });
    let _ = mkf(ks, x, y).relative_to(&mkf(kr, a, b));
    assert!(false, "C13:relative_to:zero-ref:returned");
}
#[kani::proof]
fn c13_relative_to_same_direction_panics() {
    let k: u8 = 1 + kani::any::<u8>() % 2;
    let (x, a): (f64, f64) = (kani::any(), kani::any());
    kani::assume(x.is_finite() && a.is_finite() && a != 0.0);
    let _ = mkf(k, x, x).relative_to(&mkf(k, a, a));
    assert!(false, "C13:relative_to:same-direction:returned");
}

// floats, thorough tier: + and - with a scalar on the compiled code at f32 (monotonicity of one rounded
// addition is within SAT's reach; * and / are not, see DESIGN.md)
#[kani::proof]
fn c13_f32_add_scalar_sound() {
    let kind: u8 = kani::any::<u8>() % 3;
    let (a, b, k, x): (f32, f32, f32, f32) = (kani::any(), kani::any(), kani::any(), kani::any());
    kani::assume(a.is_finite() && b.is_finite() && k.is_finite() && x.is_finite());
    kani::assume(kind != 0 || a <= b);
    let i = match kind {
        0 => Interval::TwoSided(a, b),
        1 => Interval::UpperOneSided(a),
        _ => Interval::LowerOneSided(b),
    };
    if i.contains(&x) && (x + k).is_finite() {
        assert!((i + k).contains(&(x + k)), "C13:add-scalar:f32:sound");
    }
}
#[kani::proof]
fn c13_f32_sub_scalar_sound() {
    let kind: u8 = kani::any::<u8>() % 3;
    let (a, b, k, x): (f32, f32, f32, f32) = (kani::any(), kani::any(), kani::any(), kani::any());
    kani::assume(a.is_finite() && b.is_finite() && k.is_finite() && x.is_finite());
    kani::assume(kind != 0 || a <= b);
    let i = match kind {
        0 => Interval::TwoSided(a, b),
        1 => Interval::UpperOneSided(a),
        _ => Interval::LowerOneSided(b),
    };
    if i.contains(&x) && (x - k).is_finite() {
        assert!((i - k).contains(&(x - k)), "C13:sub-scalar:f32:sound");
    }
}
