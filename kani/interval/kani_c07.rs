// C07 — interval predicates are exactly the set relations of the denoted closed sets.
// Engine K: child module of `interval` in the scratch copy; decided by CBMC over every value
// of the instantiated element type (no unwinding or range bound).
use super::*;
use core::ops::RangeBounds;

// -------- Interval<i8>: every ordered pair of intervals of every kind, every probe
fn any_iv_i8() -> Interval<i8> {
    let k: u8 = kani::any();
    let a: i8 = kani::any();
    let b: i8 = kani::any();
    match k % 3 {
        0 => {
            kani::assume(a <= b);
            Interval::TwoSided(a, b)
        }
        1 => Interval::UpperOneSided(a),
        _ => Interval::LowerOneSided(b),
    }
}
// set semantics with sentinels outside the i8 range
fn lo(i: &Interval<i8>) -> i16 {
    match i {
        Interval::TwoSided(a, _) | Interval::UpperOneSided(a) => *a as i16,
        _ => -1000,
    }
}
fn hi(i: &Interval<i8>) -> i16 {
    match i {
        Interval::TwoSided(_, b) | Interval::LowerOneSided(b) => *b as i16,
        _ => 1000,
    }
}
fn kind(i: &Interval<i8>) -> u8 {
    match i {
        Interval::TwoSided(..) => 0,
        Interval::UpperOneSided(_) => 1,
        Interval::LowerOneSided(_) => 2,
    }
}

#[kani::proof]
fn c07_contains_i8() {
    let a = any_iv_i8();
    let x: i8 = kani::any();
    let want = lo(&a) <= x as i16 && x as i16 <= hi(&a);
    kani::cover!(kind(&a) == 0 && want, "two-sided member");
    kani::cover!(kind(&a) == 1 && !want, "upper non-member");
    kani::cover!(kind(&a) == 2 && want, "lower member");
    assert!(a.contains(&x) == want, "C07:contains");
}

// one harness per (kind(a), kind(b)) class so that a failure is attributed to its arm
macro_rules! intersects_case {
    ($name:ident, $ka:expr, $kb:expr, $msg:expr, $msg_sym:expr) => {
        #[kani::proof]
        fn $name() {
            let a = any_iv_i8();
            let b = any_iv_i8();
            kani::assume(kind(&a) == $ka && kind(&b) == $kb);
            let want = lo(&a).max(lo(&b)) <= hi(&a).min(hi(&b));
            kani::cover!(want, "intersecting pair");
            kani::cover!(!want || $ka == $kb && $ka != 0, "disjoint pair (or same-direction one-sided)");
            assert!(a.intersects(&b) == want, $msg);
            // symmetric relation
            assert!(a.intersects(&b) == b.intersects(&a), $msg_sym);
        }
    };
}
intersects_case!(c07_intersects_i8_two_two, 0, 0, "C07:intersects:two-two", "C07:intersects:two-two:symmetry");
intersects_case!(c07_intersects_i8_two_upper, 0, 1, "C07:intersects:two-upper", "C07:intersects:two-upper:symmetry");
intersects_case!(c07_intersects_i8_two_lower, 0, 2, "C07:intersects:two-lower", "C07:intersects:two-lower:symmetry");
intersects_case!(c07_intersects_i8_upper_two, 1, 0, "C07:intersects:upper-two", "C07:intersects:upper-two:symmetry");
intersects_case!(c07_intersects_i8_upper_upper, 1, 1, "C07:intersects:upper-upper", "C07:intersects:upper-upper:symmetry");
intersects_case!(c07_intersects_i8_upper_lower, 1, 2, "C07:intersects:upper-lower", "C07:intersects:upper-lower:symmetry");
intersects_case!(c07_intersects_i8_lower_two, 2, 0, "C07:intersects:lower-two", "C07:intersects:lower-two:symmetry");
intersects_case!(c07_intersects_i8_lower_upper, 2, 1, "C07:intersects:lower-upper", "C07:intersects:lower-upper:symmetry");
intersects_case!(c07_intersects_i8_lower_lower, 2, 2, "C07:intersects:lower-lower", "C07:intersects:lower-lower:symmetry");

#[kani::proof]
fn c07_includes_i8() {
    let a = any_iv_i8();
    let b = any_iv_i8();
    let want = lo(&a) <= lo(&b) && hi(&b) <= hi(&a);
    kani::cover!(want && kind(&a) == 1 && kind(&b) == 0, "upper includes two-sided");
    kani::cover!(want && kind(&a) == 2 && kind(&b) == 2, "lower includes lower");
    kani::cover!(!want && kind(&a) == 0 && kind(&b) == 0, "two-sided not included");
    assert!(a.includes(&b) == want, "C07:includes");
    assert!(b.is_included_in(&a) == want, "C07:is_included_in");
    // a set includes itself
    assert!(a.includes(&a), "C07:includes:reflexive");
}

// includes <=> every member of b is a member of a: checked pointwise for the probe (soundness of
// the sentinel oracle itself, so the oracle is not taken on faith)
#[kani::proof]
fn c07_includes_pointwise_i8() {
    let a = any_iv_i8();
    let b = any_iv_i8();
    let x: i8 = kani::any();
    if a.includes(&b) && b.contains(&x) {
        assert!(a.contains(&x), "C07:includes:pointwise");
    }
    if a.contains(&x) && b.contains(&x) {
        assert!(a.intersects(&b), "C07:intersects:witness");
    }
}

#[kani::proof]
fn c07_rangebounds_i8() {
    let a = any_iv_i8();
    let x: i8 = kani::any();
    let via_range = <Interval<i8> as RangeBounds<i8>>::contains(&a, &x);
    kani::cover!(kind(&a) == 0 && hi(&a) == x as i16, "probe at the upper bound");
    kani::cover!(kind(&a) == 1 && lo(&a) == x as i16, "probe at the lower bound");
    assert!(via_range == a.contains(&x), "C07:rangebounds");
}

// -------- Interval<f64>, compare-only: +-0, +-inf allowed, NaN excluded
fn any_iv_f64() -> Interval<f64> {
    let k: u8 = kani::any();
    let a: f64 = kani::any();
    let b: f64 = kani::any();
    kani::assume(!a.is_nan() && !b.is_nan());
    match k % 3 {
        0 => {
            kani::assume(a <= b);
            Interval::TwoSided(a, b)
        }
        1 => Interval::UpperOneSided(a),
        _ => Interval::LowerOneSided(b),
    }
}
fn lo_f(i: &Interval<f64>) -> f64 {
    match i {
        Interval::TwoSided(a, _) | Interval::UpperOneSided(a) => *a,
        _ => f64::NEG_INFINITY,
    }
}
fn hi_f(i: &Interval<f64>) -> f64 {
    match i {
        Interval::TwoSided(_, b) | Interval::LowerOneSided(b) => *b,
        _ => f64::INFINITY,
    }
}

#[kani::proof]
fn c07_contains_f64() {
    let a = any_iv_f64();
    // the probe may be NaN (a member of no interval: incomparable with every bound); the stored bounds are not
    let x: f64 = kani::any();
    let want = lo_f(&a) <= x && x <= hi_f(&a);
    kani::cover!(x.is_nan(), "NaN probe");
    kani::cover!(x == 0.0 && x.is_sign_negative() && want, "-0.0 member");
    kani::cover!(x.is_infinite() && want, "infinite member");
    assert!(a.contains(&x) == want, "C07:contains:f64");
    assert!(
        <Interval<f64> as RangeBounds<f64>>::contains(&a, &x) == want,
        "C07:rangebounds:f64"
    );
}

// relations between two float intervals: stored bounds finite (incl. +-0), where the sentinel
// semantics (-inf / +inf for the missing side) is exact
#[kani::proof]
fn c07_pairs_f64() {
    let a = any_iv_f64();
    let b = any_iv_f64();
    let fin = |i: &Interval<f64>| match i {
        Interval::TwoSided(x, y) => x.is_finite() && y.is_finite(),
        Interval::UpperOneSided(x) | Interval::LowerOneSided(x) => x.is_finite(),
    };
    kani::assume(fin(&a) && fin(&b));
    let lo_m = if lo_f(&a) >= lo_f(&b) { lo_f(&a) } else { lo_f(&b) };
    let hi_m = if hi_f(&a) <= hi_f(&b) { hi_f(&a) } else { hi_f(&b) };
    kani::cover!(lo_m == hi_m && lo_m == 0.0, "touching at zero");
    assert!(a.intersects(&b) == (lo_m <= hi_m), "C07:intersects:f64");
    let want = lo_f(&a) <= lo_f(&b) && hi_f(&b) <= hi_f(&a);
    assert!(a.includes(&b) == want, "C07:includes:f64");
    assert!(b.is_included_in(&a) == want, "C07:is_included_in:f64");
}
