// C15 — interval comparison is a strict partial order consistent with equality.
// Engine K, full width: every ordered triple of Interval<i8>.
use super::*;
use core::cmp::Ordering;

fn any_iv() -> Interval<i8> {
    let k: u8 = kani::any();
    let a: i8 = kani::any();
    let b: i8 = kani::any();
    match k % 3 {
        0 => {
            kani::assume(a <= b);
            Interval::TwoSided(a, b)
        }
        1 => Interval::UpperOneSided(a),
        _ => Interval::LowerOneSided(b),
    }
}
fn lo(i: &Interval<i8>) -> i16 {
    match i {
        Interval::TwoSided(a, _) | Interval::UpperOneSided(a) => *a as i16,
        _ => -1000,
    }
}
fn hi(i: &Interval<i8>) -> i16 {
    match i {
        Interval::TwoSided(_, b) | Interval::LowerOneSided(b) => *b as i16,
        _ => 1000,
    }
}

#[kani::proof]
fn c15_equal_iff_eq() {
    let a = any_iv();
    let b = any_iv();
    let ab = a.partial_cmp(&b);
    kani::cover!(ab == Some(Ordering::Equal), "equal pair");
    kani::cover!(ab.is_none(), "incomparable pair");
    assert!((ab == Some(Ordering::Equal)) == (a == b), "C15:equal-iff-eq");
    // == is structural: same kind and same bounds
    let same = match (&a, &b) {
        (Interval::TwoSided(x, y), Interval::TwoSided(u, v)) => x == u && y == v,
        (Interval::UpperOneSided(x), Interval::UpperOneSided(u)) => x == u,
        (Interval::LowerOneSided(x), Interval::LowerOneSided(u)) => x == u,
        _ => false,
    };
    assert!((a == b) == same, "C15:eq-structural");
}

#[kani::proof]
fn c15_less_iff_all_members_le() {
    let a = any_iv();
    let b = any_iv();
    let ab = a.partial_cmp(&b);
    // every member of a <= every member of b  <=>  sup a <= inf b
    let want = a != b && hi(&a) <= lo(&b);
    kani::cover!(want && hi(&a) == lo(&b), "touching at one endpoint is ordered");
    kani::cover!(want && hi(&a) < lo(&b), "strictly separated");
    assert!((ab == Some(Ordering::Less)) == want, "C15:less-iff-separated");
    assert!((a < b) == want, "C15:lt-operator");
    let want_gt = a != b && hi(&b) <= lo(&a);
    assert!((ab == Some(Ordering::Greater)) == want_gt, "C15:greater-iff-separated");
    assert!((a > b) == want_gt, "C15:gt-operator");
    assert!((a <= b) == (want || a == b), "C15:le-operator");
    assert!((a >= b) == (want_gt || a == b), "C15:ge-operator");
}

#[kani::proof]
fn c15_duality() {
    let a = any_iv();
    let b = any_iv();
    let ab = a.partial_cmp(&b);
    let ba = b.partial_cmp(&a);
    assert!((ab == Some(Ordering::Less)) == (ba == Some(Ordering::Greater)), "C15:duality");
    assert!((ab == Some(Ordering::Equal)) == (ba == Some(Ordering::Equal)), "C15:duality-equal");
    assert!(ab.is_none() == ba.is_none(), "C15:duality-none");
    assert!(!(a < b && b < a), "C15:asymmetric");
    assert!(!(a < a), "C15:irreflexive");
}

#[kani::proof]
fn c15_transitive() {
    let a = any_iv();
    let b = any_iv();
    let c = any_iv();
    kani::cover!(a < b && b < c, "chain of three");
    if a < b && b < c {
        assert!(a < c, "C15:transitive");
    }
    if a <= b && b <= c {
        assert!(a <= c, "C15:transitive-le");
    }
}

#[kani::proof]
fn c15_incomparable() {
    let a = any_iv();
    let b = any_iv();
    let ab = a.partial_cmp(&b);
    // overlap in more than a shared endpoint
    let overlap_more = lo(&a).max(lo(&b)) < hi(&a).min(hi(&b));
    let same_side_unbounded = (lo(&a) == -1000 && lo(&b) == -1000) || (hi(&a) == 1000 && hi(&b) == 1000);
    kani::cover!(overlap_more && a != b, "overlapping distinct pair");
    kani::cover!(same_side_unbounded && a != b, "same side unbounded");
    if a != b && (overlap_more || same_side_unbounded) {
        assert!(ab.is_none(), "C15:incomparable");
    }
}
