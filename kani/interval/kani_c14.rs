// C14 — intervals are well-formed and accessors / conversions are lossless.
// Engine K, full width on i8 / u8 / f64 (compare and move only) and a non-Copy ordered newtype.
use super::*;
use core::hash::{Hash, Hasher};
use core::ops::{RangeFrom, RangeInclusive, RangeToInclusive};

fn mk_i8(k: u8, a: i8, b: i8) -> Interval<i8> {
    match k % 3 {
        0 => Interval::TwoSided(a, b),
        1 => Interval::UpperOneSided(a),
        _ => Interval::LowerOneSided(b),
    }
}
fn any_iv_i8() -> (u8, i8, i8, Interval<i8>) {
    let k: u8 = kani::any::<u8>() % 3;
    let a: i8 = kani::any();
    let b: i8 = kani::any();
    if k == 0 {
        kani::assume(a <= b);
    }
    (k, a, b, mk_i8(k, a, b))
}

#[kani::proof]
fn c14_new_i8() {
    let a: i8 = kani::any();
    let b: i8 = kani::any();
    kani::cover!(a == b, "degenerate");
    kani::cover!(a > b, "inverted");
    match Interval::new(a, b) {
        Ok(i) => {
            assert!(a <= b, "C14:new:accepts-inverted");
            assert!(matches!(i, Interval::TwoSided(x, y) if x == a && y == b), "C14:new:stored-bounds");
        }
        Err(IntervalError::InvalidBounds) => assert!(a > b, "C14:new:rejects-ordered"),
        Err(_) => assert!(false, "C14:new:wrong-error"),
    }
    assert!(matches!(Interval::new_upper(a), Interval::UpperOneSided(x) if x == a), "C14:new_upper");
    assert!(matches!(Interval::new_lower(b), Interval::LowerOneSided(x) if x == b), "C14:new_lower");
}

#[kani::proof]
fn c14_try_from_tuple_i8() {
    let a: i8 = kani::any();
    let b: i8 = kani::any();
    match Interval::try_from((a, b)) {
        Ok(i) => {
            assert!(a <= b, "C14:try_from_tuple:accepts-inverted");
            assert!(matches!(i, Interval::TwoSided(x, y) if x == a && y == b), "C14:try_from_tuple:stored-bounds");
        }
        Err(IntervalError::InvalidBounds) => assert!(a > b, "C14:try_from_tuple:rejects-ordered"),
        Err(_) => assert!(false, "C14:try_from_tuple:wrong-error"),
    }
}

#[kani::proof]
fn c14_try_from_options_i8() {
    let a: i8 = kani::any();
    let b: i8 = kani::any();
    let oa: Option<i8> = if kani::any() { Some(a) } else { None };
    let ob: Option<i8> = if kani::any() { Some(b) } else { None };
    kani::cover!(oa.is_none() && ob.is_none(), "doubly unbounded");
    match Interval::try_from((oa, ob)) {
        Ok(Interval::TwoSided(x, y)) => assert!(oa == Some(x) && ob == Some(y) && x <= y, "C14:try_from_options:two-sided"),
        Ok(Interval::UpperOneSided(x)) => assert!(oa == Some(x) && ob.is_none(), "C14:try_from_options:upper"),
        Ok(Interval::LowerOneSided(y)) => assert!(oa.is_none() && ob == Some(y), "C14:try_from_options:lower"),
        Err(IntervalError::EmptyInterval) => assert!(oa.is_none() && ob.is_none(), "C14:try_from_options:empty"),
        Err(IntervalError::InvalidBounds) => assert!(oa.is_some() && ob.is_some() && a > b, "C14:try_from_options:invalid"),
    }
}

#[kani::proof]
fn c14_ranges_i8() {
    let a: i8 = kani::any();
    let b: i8 = kani::any();
    let r: RangeInclusive<i8> = a..=b;
    match Interval::try_from(r) {
        Ok(i) => assert!(a <= b && matches!(i, Interval::TwoSided(x, y) if x == a && y == b), "C14:range_inclusive:ok"),
        Err(IntervalError::InvalidBounds) => assert!(a > b, "C14:range_inclusive:err"),
        Err(_) => assert!(false, "C14:range_inclusive:wrong-error"),
    }
    let rf: RangeFrom<i8> = a..;
    assert!(matches!(Interval::from(rf), Interval::UpperOneSided(x) if x == a), "C14:range_from");
    let rt: RangeToInclusive<i8> = ..=b;
    assert!(matches!(Interval::from(rt), Interval::LowerOneSided(x) if x == b), "C14:range_to_inclusive");
}

#[kani::proof]
fn c14_accessors_i8() {
    let (k, a, b, i) = any_iv_i8();
    let want_lo = if k == 2 { None } else { Some(a) };
    let want_hi = if k == 1 { None } else { Some(b) };
    assert!(i.low() == want_lo && i.high() == want_hi, "C14:low-high");
    assert!(i.left().copied() == want_lo && i.right().copied() == want_hi, "C14:left-right");
    assert!(i.low_as_ref().copied() == want_lo && i.high_as_ref().copied() == want_hi, "C14:as_ref");
    assert!(i.low_i() == want_lo.unwrap_or(i8::MIN) && i.high_i() == want_hi.unwrap_or(i8::MAX), "C14:low_i-high_i");
    // kind predicates: mutually exclusive and exhaustive
    let (t, u, l, o) = (i.is_two_sided(), i.is_upper(), i.is_lower(), i.is_one_sided());
    assert!(t == (k == 0) && u == (k == 1) && l == (k == 2), "C14:kind-predicates");
    assert!(o == !t && (t as u8 + u as u8 + l as u8) == 1, "C14:kind-exclusive");
    assert!(i.is_degenerate() == (k == 0 && a == b), "C14:is_degenerate");
    // tuple / option-pair conversions and round trip
    let tup: (i8, i8) = i.into();
    assert!(tup == (want_lo.unwrap_or(i8::MIN), want_hi.unwrap_or(i8::MAX)), "C14:into-tuple");
    let opt: (Option<i8>, Option<i8>) = i.into();
    assert!(opt == (want_lo, want_hi), "C14:into-options");
    assert!(matches!(Interval::try_from(opt), Ok(j) if j == i), "C14:options-roundtrip");
    if k == 0 {
        assert!(matches!(Interval::try_from(tup), Ok(j) if j == i), "C14:tuple-roundtrip");
    }
}

#[kani::proof]
fn c14_width_i32() {
    let k: u8 = kani::any::<u8>() % 3;
    let a: i32 = kani::any();
    let b: i32 = kani::any();
    kani::assume(a >= -1_000_000 && a <= 1_000_000 && b >= -1_000_000 && b <= 1_000_000);
    let i = match k {
        0 => {
            kani::assume(a <= b);
            Interval::TwoSided(a, b)
        }
        1 => Interval::UpperOneSided(a),
        _ => Interval::LowerOneSided(b),
    };
    match i.width() {
        Some(w) => assert!(k == 0 && w == b - a && w >= 0 && (w == 0) == i.is_degenerate(), "C14:width"),
        None => assert!(k != 0, "C14:width-none"),
    }
}

#[kani::proof]
fn c14_accessors_u8() {
    let k: u8 = kani::any::<u8>() % 3;
    let a: u8 = kani::any();
    let b: u8 = kani::any();
    let i = match k {
        0 => {
            kani::assume(a <= b);
            Interval::TwoSided(a, b)
        }
        1 => Interval::UpperOneSided(a),
        _ => Interval::LowerOneSided(b),
    };
    assert!(i.low_u() == if k == 2 { 0 } else { a }, "C14:low_u");
    assert!(i.high_u() == if k == 1 { u8::MAX } else { b }, "C14:high_u");
    let tup: (u8, u8) = i.into();
    assert!(tup == (i.low_u(), i.high_u()), "C14:into-tuple-u8");
    assert!(i.low() == if k == 2 { None } else { Some(a) } && i.high() == if k == 1 { None } else { Some(b) }, "C14:low-high-u8");
}

// floats: bit-exact projections (-0.0 must stay -0.0), infinities stand for the missing side
#[kani::proof]
fn c14_accessors_f64() {
    let k: u8 = kani::any::<u8>() % 3;
    let a: f64 = kani::any();
    let b: f64 = kani::any();
    kani::assume(!a.is_nan() && !b.is_nan());
    let i = match k {
        0 => {
            kani::assume(a <= b);
            Interval::TwoSided(a, b)
        }
        1 => Interval::UpperOneSided(a),
        _ => Interval::LowerOneSided(b),
    };
    kani::cover!(k == 0 && a == 0.0 && a.is_sign_negative() && b == 0.0 && !b.is_sign_negative(), "[-0, +0]");
    kani::cover!(k == 0 && a.is_infinite() && b.is_infinite(), "infinite stored bounds");
    let lo = i.low_f();
    let hi = i.high_f();
    assert!(if k == 2 { lo == f64::NEG_INFINITY } else { lo.to_bits() == a.to_bits() }, "C14:low_f");
    assert!(if k == 1 { hi == f64::INFINITY } else { hi.to_bits() == b.to_bits() }, "C14:high_f");
    match i.low() {
        Some(x) => assert!(k != 2 && x.to_bits() == a.to_bits(), "C14:low-f64"),
        None => assert!(k == 2, "C14:low-f64-none"),
    }
    match i.high() {
        Some(x) => assert!(k != 1 && x.to_bits() == b.to_bits(), "C14:high-f64"),
        None => assert!(k == 1, "C14:high-f64-none"),
    }
    let tup: (f64, f64) = i.into();
    assert!(tup.0.to_bits() == lo.to_bits() && tup.1.to_bits() == hi.to_bits(), "C14:into-tuple-f64");
    assert!(i.is_degenerate() == (k == 0 && a == b), "C14:is_degenerate-f64");
    let c = i.clone();
    assert!(c == i, "C14:clone-eq-f64");
}

#[kani::proof]
fn c14_new_f64() {
    let a: f64 = kani::any();
    let b: f64 = kani::any();
    kani::assume(!a.is_nan() && !b.is_nan());
    kani::cover!(a == b && a.is_sign_negative() != b.is_sign_negative(), "+0 / -0 pair");
    match Interval::new(a, b) {
        Ok(Interval::TwoSided(x, y)) => assert!(a <= b && x.to_bits() == a.to_bits() && y.to_bits() == b.to_bits(), "C14:new-f64"),
        Ok(_) => assert!(false, "C14:new-f64-kind"),
        Err(IntervalError::InvalidBounds) => assert!(a > b, "C14:new-f64-err"),
        Err(_) => assert!(false, "C14:new-f64-wrong-error"),
    }
    let via_tuple = Interval::try_from((a, b));
    assert!(via_tuple.is_ok() == (a <= b), "C14:try_from_tuple-f64");
    let via_range = Interval::try_from(a..=b);
    assert!(via_range.is_ok() == (a <= b), "C14:range_inclusive-f64");
}

// the one recomputed float subtraction is affordable for f32
#[kani::proof]
fn c14_width_f32() {
    let a: f32 = kani::any();
    let b: f32 = kani::any();
    kani::assume(a.is_finite() && b.is_finite() && a <= b);
    let i = Interval::TwoSided(a, b);
    match i.width() {
        Some(w) => assert!(w.to_bits() == (b - a).to_bits(), "C14:width-f32"),
        None => assert!(false, "C14:width-f32-none"),
    }
    assert!(Interval::UpperOneSided(a).width().is_none() && Interval::LowerOneSided(b).width().is_none(), "C14:width-f32-one-sided");
}

// non-Copy, non-numeric ordered element type
#[derive(PartialEq, PartialOrd, Clone, Debug)]
struct Word(u8, u8);

#[kani::proof]
fn c14_ordered_newtype() {
    let a = Word(kani::any(), kani::any());
    let b = Word(kani::any(), kani::any());
    kani::cover!(a.0 == b.0 && a.1 < b.1, "ordered by second component");
    match Interval::new(a.clone(), b.clone()) {
        Ok(i) => {
            assert!(a <= b, "C14:new-newtype:accepts-inverted");
            assert!(i.left() == Some(&a) && i.right() == Some(&b), "C14:new-newtype:bounds");
            assert!(i.low() == Some(a.clone()) && i.high() == Some(b.clone()), "C14:new-newtype:low-high");
            assert!(i.is_degenerate() == (a == b), "C14:new-newtype:degenerate");
            let c = i.clone();
            assert!(c == i, "C14:new-newtype:clone");
            let opt: (Option<Word>, Option<Word>) = i.into();
            assert!(opt == (Some(a), Some(b)), "C14:new-newtype:into-options");
        }
        Err(IntervalError::InvalidBounds) => assert!(a > b, "C14:new-newtype:rejects-ordered"),
        Err(_) => assert!(false, "C14:new-newtype:wrong-error"),
    }
}

// Hash: equal intervals feed identical byte streams; recorded by a byte-logging Hasher
struct Rec {
    buf: [u8; 24],
    n: usize,
}
impl Hasher for Rec {
    fn finish(&self) -> u64 {
        0
    }
    fn write(&mut self, bytes: &[u8]) {
        let mut j = 0;
        while j < bytes.len() {
            if self.n < 24 {
                self.buf[self.n] = bytes[j];
            }
            self.n += 1;
            j += 1;
        }
    }
}
fn stream(i: &Interval<i8>) -> Rec {
    let mut r = Rec { buf: [0; 24], n: 0 };
    i.hash(&mut r);
    r
}

#[kani::proof]
#[kani::unwind(26)]
fn c14_eq_hash_kinds() {
    let (ka, a1, a2, a) = any_iv_i8();
    let (kb, b1, b2, b) = any_iv_i8();
    let same = ka == kb && match ka {
        0 => a1 == b1 && a2 == b2,
        1 => a1 == b1,
        _ => a2 == b2,
    };
    kani::cover!(same, "equal pair");
    kani::cover!(ka != kb && a1 == b1 && a2 == b2, "same bounds, different kinds");
    assert!((a == b) == same, "C14:eq-structural");
    if ka != kb {
        assert!(a != b, "C14:different-kinds-unequal");
    }
    let (ra, rb) = (stream(&a), stream(&b));
    assert!(ra.n <= 24 && rb.n <= 24, "C14:hash-stream-length");
    if a == b {
        let mut j = 0;
        let mut eq = ra.n == rb.n;
        while j < 24 {
            if j < ra.n && ra.buf[j] != rb.buf[j] {
                eq = false;
            }
            j += 1;
        }
        assert!(eq, "C14:equal-hash-equal");
    }
    let c = a;
    assert!(c == a && a.clone() == a, "C14:copy-clone-eq");
}
