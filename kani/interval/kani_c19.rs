// requires-feature: approx
// C19 — approximate interval equality is kind-aware and bound-wise; Display is canonical.
// Engine K. The element type is an opaque token whose approximate-equality relations are *symbolic truth
// tables*: the interval-level relation must be exactly "same kind and the element relation on every
// corresponding bound with the same tolerance arguments", whatever the element relation is. This is
// strictly more general than the f64 instantiation and keeps float arithmetic out of SAT.
use super::*;
use approx::{AbsDiffEq, RelativeEq, UlpsEq};
use core::sync::atomic::{AtomicU64, Ordering::SeqCst};

static T_ABS: AtomicU64 = AtomicU64::new(0);
static T_REL: AtomicU64 = AtomicU64::new(0);
static T_ULP: AtomicU64 = AtomicU64::new(0);

#[derive(PartialEq, PartialOrd, Clone, Copy, Debug)]
struct E(u8);

fn bit(t: &AtomicU64, idx: u64) -> bool {
    (t.load(SeqCst) >> (idx & 63)) & 1 == 1
}
impl AbsDiffEq for E {
    type Epsilon = u8;
    fn default_epsilon() -> u8 {
        1
    }
    fn abs_diff_eq(&self, other: &Self, eps: u8) -> bool {
        bit(&T_ABS, ((self.0 & 3) as u64) | (((other.0 & 3) as u64) << 2) | (((eps & 3) as u64) << 4))
    }
}
impl RelativeEq for E {
    fn default_max_relative() -> u8 {
        2
    }
    fn relative_eq(&self, other: &Self, eps: u8, max_rel: u8) -> bool {
        bit(&T_REL, ((self.0 & 3) as u64) | (((other.0 & 3) as u64) << 2) | (((eps & 1) as u64) << 4) | (((max_rel & 1) as u64) << 5))
    }
}
impl UlpsEq for E {
    fn default_max_ulps() -> u32 {
        3
    }
    fn ulps_eq(&self, other: &Self, eps: u8, max_ulps: u32) -> bool {
        bit(&T_ULP, ((self.0 & 3) as u64) | (((other.0 & 3) as u64) << 2) | (((eps & 1) as u64) << 4) | (((max_ulps & 1) as u64) << 5))
    }
}
fn mk(k: u8, l: E, h: E) -> Interval<E> {
    match k % 3 {
        0 => Interval::TwoSided(l, h),
        1 => Interval::UpperOneSided(l),
        _ => Interval::LowerOneSided(h),
    }
}
fn setup() -> (u8, u8, E, E, E, E) {
    T_ABS.store(kani::any(), SeqCst);
    T_REL.store(kani::any(), SeqCst);
    T_ULP.store(kani::any(), SeqCst);
    let ka: u8 = kani::any::<u8>() % 3;
    let kb: u8 = kani::any::<u8>() % 3;
    (ka, kb, E(kani::any()), E(kani::any()), E(kani::any()), E(kani::any()))
}

#[kani::proof]
fn c19_abs_diff_eq() {
    let (ka, kb, a, b, x, y) = setup();
    let e: u8 = kani::any();
    let r = mk(ka, a, b).abs_diff_eq(&mk(kb, x, y), e);
    let want = ka == kb
        && match ka {
            0 => a.abs_diff_eq(&x, e) && b.abs_diff_eq(&y, e),
            1 => a.abs_diff_eq(&x, e),
            _ => b.abs_diff_eq(&y, e),
        };
    kani::cover!(r && ka == 0, "two-sided related");
    kani::cover!(!r && ka == kb, "same kind unrelated");
    assert!(r == want, "C19:abs_diff_eq");
    if ka != kb {
        assert!(!r, "C19:abs_diff_eq:never-across-kinds");
    }
    assert!(mk(ka, a, b).abs_diff_ne(&mk(kb, x, y), e) == !want, "C19:abs_diff_ne");
    assert!(<Interval<E> as AbsDiffEq>::default_epsilon() == 1, "C19:default_epsilon");
}

#[kani::proof]
fn c19_relative_eq() {
    let (ka, kb, a, b, x, y) = setup();
    let e: u8 = kani::any();
    let m: u8 = kani::any();
    let r = mk(ka, a, b).relative_eq(&mk(kb, x, y), e, m);
    let want = ka == kb
        && match ka {
            0 => a.relative_eq(&x, e, m) && b.relative_eq(&y, e, m),
            1 => a.relative_eq(&x, e, m),
            _ => b.relative_eq(&y, e, m),
        };
    kani::cover!(r, "related");
    assert!(r == want, "C19:relative_eq");
    assert!(<Interval<E> as RelativeEq>::default_max_relative() == 2, "C19:default_max_relative");
}

#[kani::proof]
fn c19_ulps_eq() {
    let (ka, kb, a, b, x, y) = setup();
    let e: u8 = kani::any();
    let m: u32 = kani::any();
    let r = mk(ka, a, b).ulps_eq(&mk(kb, x, y), e, m);
    let want = ka == kb
        && match ka {
            0 => a.ulps_eq(&x, e, m) && b.ulps_eq(&y, e, m),
            1 => a.ulps_eq(&x, e, m),
            _ => b.ulps_eq(&y, e, m),
        };
    kani::cover!(r, "related");
    assert!(r == want, "C19:ulps_eq");
    assert!(<Interval<E> as UlpsEq>::default_max_ulps() == 3, "C19:default_max_ulps");
}

// consequences: reflexive / symmetric whenever the element relation is; implied by == when the element
// relation is reflexive
#[kani::proof]
fn c19_laws_from_element_relation() {
    let (ka, kb, a, b, x, y) = setup();
    let e: u8 = kani::any();
    // assume the element relation is reflexive and symmetric on the values in play
    let vals = [a, b, x, y];
    let mut i = 0;
    while i < 4 {
        kani::assume(vals[i].abs_diff_eq(&vals[i], e));
        let mut j = 0;
        while j < 4 {
            kani::assume(vals[i].abs_diff_eq(&vals[j], e) == vals[j].abs_diff_eq(&vals[i], e));
            j += 1;
        }
        i += 1;
    }
    let (p, q) = (mk(ka, a, b), mk(kb, x, y));
    assert!(p.abs_diff_eq(&p, e), "C19:reflexive");
    assert!(p.abs_diff_eq(&q, e) == q.abs_diff_eq(&p, e), "C19:symmetric");
    if p == q {
        assert!(p.abs_diff_eq(&q, e), "C19:implied-by-eq");
    }
}

// the real f64 instantiation on exactly equal bounds and across kinds (no float arithmetic is decisive)
#[kani::proof]
fn c19_f64_exact_and_kinds() {
    let (a, b): (f64, f64) = (kani::any(), kani::any());
    kani::assume(a.is_finite() && b.is_finite() && a <= b);
    let ka: u8 = kani::any::<u8>() % 3;
    let kb: u8 = kani::any::<u8>() % 3;
    let f = |k: u8| match k {
        0 => Interval::TwoSided(a, b),
        1 => Interval::UpperOneSided(a),
        _ => Interval::LowerOneSided(b),
    };
    let (p, q) = (f(ka), f(kb));
    if ka == kb {
        assert!(p.abs_diff_eq(&q, 0.0), "C19:f64:reflexive-abs");
        assert!(p.ulps_eq(&q, 0.0, 0), "C19:f64:reflexive-ulps");
    } else {
        assert!(!p.abs_diff_eq(&q, f64::INFINITY), "C19:f64:never-across-kinds-abs");
        assert!(!p.relative_eq(&q, f64::INFINITY, f64::INFINITY), "C19:f64:never-across-kinds-rel");
        assert!(!p.ulps_eq(&q, f64::INFINITY, u32::MAX), "C19:f64:never-across-kinds-ulps");
    }
}

// Display: token element type into a fixed buffer; exact byte strings
#[derive(PartialEq, PartialOrd, Clone, Copy)]
struct Tok(u8);
impl core::fmt::Display for Tok {
    fn fmt(&self, f: &mut core::fmt::Formatter<'_>) -> core::fmt::Result {
        use core::fmt::Write;
        f.write_char((b'a' + (self.0 % 26)) as char)
    }
}
struct Buf {
    b: [u8; 16],
    n: usize,
}
impl core::fmt::Write for Buf {
    fn write_str(&mut self, s: &str) -> core::fmt::Result {
        for c in s.bytes() {
            if self.n >= 16 {
                return Err(core::fmt::Error);
            }
            self.b[self.n] = c;
            self.n += 1;
        }
        Ok(())
    }
}
#[kani::proof]
#[kani::unwind(18)]
fn c19_display() {
    use core::fmt::Write;
    let a = Tok(kani::any());
    let b = Tok(kani::any());
    let k: u8 = kani::any::<u8>() % 3;
    let i = match k {
        0 => Interval::TwoSided(a, b),
        1 => Interval::UpperOneSided(a),
        _ => Interval::LowerOneSided(b),
    };
    let mut w = Buf { b: [0; 16], n: 0 };
    let res = write!(w, "{}", i);
    assert!(res.is_ok(), "C19:display:ok");
    let ca = b'a' + a.0 % 26;
    let cb = b'a' + b.0 % 26;
    let want: [u8; 6] = match k {
        0 => [b'[', ca, b',', b' ', cb, b']'],
        1 => [b'[', ca, b',', b'-', b'>', b')'],
        _ => [b'(', b'<', b'-', b',', cb, b']'],
    };
    assert!(w.n == 6, "C19:display:length");
    assert!(w.b[0] == want[0] && w.b[1] == want[1] && w.b[2] == want[2] && w.b[3] == want[3] && w.b[4] == want[4] && w.b[5] == want[5], "C19:display:bytes");
}

// Display under formatter flags: a precision (or width) given for the interval as a whole must not cut the canonical text
// short -- `{:.1}` still renders all of "[a, b]" (seeded change C19-F rendered into a String and handed it to
// Formatter::pad, which treats a precision as a maximum length). Concrete tokens: the question is about the flags, and
// concrete data keeps a String-building implementation within CBMC's reach.
fn display_with_precision(k: u8) {
    use core::fmt::Write;
    let a = Tok(3);
    let b = Tok(7);
    let i = match k {
        0 => Interval::TwoSided(a, b),
        1 => Interval::UpperOneSided(a),
        _ => Interval::LowerOneSided(b),
    };
    let mut w = Buf { b: [0; 16], n: 0 };
    let res = write!(w, "{:.1}", i);
    assert!(res.is_ok(), "C19:display:precision:ok");
    let want: [u8; 6] = match k {
        0 => [b'[', b'd', b',', b' ', b'h', b']'],
        1 => [b'[', b'd', b',', b'-', b'>', b')'],
        _ => [b'(', b'<', b'-', b',', b'h', b']'],
    };
    assert!(w.n == 6, "C19:display:precision:truncated-or-padded");
    assert!(w.b[0] == want[0] && w.b[1] == want[1] && w.b[2] == want[2] && w.b[3] == want[3] && w.b[4] == want[4] && w.b[5] == want[5], "C19:display:precision:bytes");
}
// An implementation that renders into a String first goes through alloc::fmt::format, whose growth / UTF-8 machinery is beyond
// CBMC in the budget; the stub renders into the fixed buffer and copies the bytes into a String with reserved capacity
// (same text; only the allocation strategy differs). On the pinned tree Display does not call it at all.
fn format_stub(args: core::fmt::Arguments<'_>) -> String {
    use core::fmt::Write;
    let mut w = Buf { b: [0; 16], n: 0 };
    let _ = w.write_fmt(args);
    let mut s = String::with_capacity(16);
    let mut j = 0;
    while j < 16 {
        if j < w.n {
            s.push(w.b[j] as char);
        }
        j += 1;
    }
    s
}
#[kani::proof]
#[kani::unwind(18)]
#[kani::stub(alloc::fmt::format, format_stub)]
fn c19_display_precision_two_sided() {
    display_with_precision(0);
}
#[kani::proof]
#[kani::unwind(18)]
#[kani::stub(alloc::fmt::format, format_stub)]
fn c19_display_precision_one_sided() {
    display_with_precision(if kani::any() { 1 } else { 2 });
}
