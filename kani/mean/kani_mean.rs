// Child module of `mean`: arbitrary accumulator pre-states (private fields) and the K harnesses of
// C01 (glue), C05 (rejection), C09 (exact parts) and C11 (totality) for Arithmetic / Harmonic / Geometric.
#![allow(dead_code)]
use super::*;
use crate::kani_support::*;
use crate::utils::kani_utils::*;
use statrs::distribution::{ContinuousCDF, Normal, StudentsT};

pub(crate) fn raw_arith<F: Float>(s: F, c: F, q: F, qc: F, n: usize) -> Arithmetic<F> {
    Arithmetic { sum: raw_kahan(s, c), sum_sq: raw_kahan(q, qc), count: n }
}
pub(crate) fn any_arith_f64() -> Arithmetic<f64> {
    raw_arith(kani::any(), kani::any(), kani::any(), kani::any(), kani::any())
}
pub(crate) fn any_arith_f32() -> Arithmetic<f32> {
    raw_arith(kani::any(), kani::any(), kani::any(), kani::any(), kani::any())
}
pub(crate) fn arith_bits_f64(a: &Arithmetic<f64>) -> (u64, u64, u64, u64, usize) {
    let (s, c) = kahan_parts(&a.sum);
    let (q, qc) = kahan_parts(&a.sum_sq);
    (s.to_bits(), c.to_bits(), q.to_bits(), qc.to_bits(), a.count)
}
pub(crate) fn arith_bits_f32(a: &Arithmetic<f32>) -> (u32, u32, u32, u32, usize) {
    let (s, c) = kahan_parts(&a.sum);
    let (q, qc) = kahan_parts(&a.sum_sq);
    (s.to_bits(), c.to_bits(), q.to_bits(), qc.to_bits(), a.count)
}
pub(crate) fn arith_count<F: Float>(a: &Arithmetic<F>) -> usize {
    a.count
}
pub(crate) fn harmonic_inner_f64(h: &Harmonic<f64>) -> Arithmetic<f64> {
    h.recip_space
}
pub(crate) fn geometric_inner_f64(g: &Geometric<f64>) -> Arithmetic<f64> {
    g.log_space
}
pub(crate) fn raw_harmonic_f64(a: Arithmetic<f64>) -> Harmonic<f64> {
    Harmonic { recip_space: a }
}
pub(crate) fn raw_geometric_f64(a: Arithmetic<f64>) -> Geometric<f64> {
    Geometric { log_space: a }
}

fn documented_ci_error(e: &CIError) -> bool {
    matches!(e, CIError::TooFewSamples(_) | CIError::InvalidInputData | CIError::IntervalError(_) | CIError::FloatConversionError(_) | CIError::NonPositiveValue(_))
}

// ------------------------------------------------------------------------------------------------ C11
// state level: arbitrary (sum, compensation, sum_sq, compensation_sq, count) covers the state after ANY history,
// including count 0/1 and NaN / infinite sums
#[kani::proof]
#[kani::stub(<StudentsT as ContinuousCDF<f64, f64>>::inverse_cdf, icdf_t_stub)]
#[kani::stub(<Normal as ContinuousCDF<f64, f64>>::inverse_cdf, icdf_n_stub)]
fn c11_arith_ci_mean_state_f64() {
    let st = any_arith_f64();
    let n = st.count;
    let conf = any_conf_practical();
    match st.ci_mean(conf) {
        Ok(i) => {
            assert!(well_formed_f64(&i), "C11:arith:ci_mean:ok-with-nan-or-inverted-bounds");
            assert!(n >= 2, "C11:arith:ci_mean:ok-with-fewer-than-two-samples");
        }
        Err(e) => {
            assert!(documented_ci_error(&e), "C11:arith:ci_mean:undocumented-error-variant");
            if n < 2 {
                assert!(matches!(e, CIError::TooFewSamples(k) if k == n), "C11:arith:ci_mean:too-few-samples-variant");
            }
        }
    }
}
#[kani::proof]
#[kani::stub(<StudentsT as ContinuousCDF<f64, f64>>::inverse_cdf, icdf_t_stub)]
#[kani::stub(<Normal as ContinuousCDF<f64, f64>>::inverse_cdf, icdf_n_stub)]
fn c11_arith_ci_mean_state_f32() {
    let st = any_arith_f32();
    let n = st.count;
    let conf = any_conf_practical();
    match st.ci_mean(conf) {
        Ok(i) => {
            assert!(well_formed_f32(&i), "C11:arith:ci_mean:f32:ok-with-nan-or-inverted-bounds");
            assert!(n >= 2, "C11:arith:ci_mean:f32:ok-with-fewer-than-two-samples");
        }
        Err(e) => {
            assert!(documented_ci_error(&e), "C11:arith:ci_mean:f32:undocumented-error-variant");
            if n < 2 {
                assert!(matches!(e, CIError::TooFewSamples(k) if k == n), "C11:arith:ci_mean:f32:too-few-samples-variant");
            }
        }
    }
}

// API level: <= 3 symbolic observations through the public one-shot entry point (NaN, +-inf, 0, negative,
// huge/tiny at every position; empty and singleton samples)
#[kani::proof]
#[kani::unwind(5)]
#[kani::stub(<StudentsT as ContinuousCDF<f64, f64>>::inverse_cdf, icdf_t_stub)]
#[kani::stub(<Normal as ContinuousCDF<f64, f64>>::inverse_cdf, icdf_n_stub)]
fn c11_arith_ci_api_f64() {
    let data = any_prefix_f64::<3>();
    let (d, len) = (data.d, data.len);
    let conf = any_conf_practical();
    kani::cover!(len == 0, "empty sample");
    kani::cover!(len == 1, "singleton sample");
    kani::cover!(len == 3 && d[1].is_nan(), "NaN in the middle");
    match Arithmetic::<f64>::ci(conf, &data) {
        Ok(i) => {
            assert!(well_formed_f64(&i), "C11:arith:ci:ok-with-nan-or-inverted-bounds");
            assert!(len >= 2, "C11:arith:ci:ok-with-fewer-than-two-samples");
        }
        Err(e) => {
            assert!(documented_ci_error(&e), "C11:arith:ci:undocumented-error-variant");
            if len < 2 {
                assert!(matches!(e, CIError::TooFewSamples(k) if k == len), "C11:arith:ci:too-few-samples-variant");
            }
        }
    }
}

// ------------------------------------------------------------------------------------------------ recorders
// `Arithmetic::append` replaced by a recorder: logs (count before the call, argument bits) and bumps the count.
// The count doubles as a tag identifying WHICH accumulator received the value.
pub(crate) static REC_CALLS: AtomicUsize = AtomicUsize::new(0);
pub(crate) static REC_TAG: [AtomicUsize; 4] = [AtomicUsize::new(0), AtomicUsize::new(0), AtomicUsize::new(0), AtomicUsize::new(0)];
pub(crate) static REC_X: [AtomicU64; 4] = [AtomicU64::new(0), AtomicU64::new(0), AtomicU64::new(0), AtomicU64::new(0)];
use core::sync::atomic::{AtomicU64, AtomicUsize, Ordering::SeqCst};
pub(crate) fn append_recorder<F: Float>(s: &mut Arithmetic<F>, x: F) -> CIResult<()> {
    let i = REC_CALLS.fetch_add(1, SeqCst);
    if i < 4 {
        REC_TAG[i].store(s.count, SeqCst);
        REC_X[i].store(x.to_f64().unwrap_or(f64::NAN).to_bits(), SeqCst);
    }
    s.count += 1;
    Ok(())
}
pub(crate) fn rec(i: usize) -> (usize, u64) {
    (REC_TAG[i].load(SeqCst), REC_X[i].load(SeqCst))
}
pub(crate) fn rec_calls() -> usize {
    REC_CALLS.load(SeqCst)
}
// `Arithmetic::ci_mean` replaced by a marker that logs the count of the state it was called on
pub(crate) static CI_CALLS: AtomicUsize = AtomicUsize::new(0);
pub(crate) static CI_COUNT: AtomicUsize = AtomicUsize::new(0);
pub(crate) static CI_KIND: AtomicUsize = AtomicUsize::new(9);
pub(crate) fn ci_mean_marker<F: Float>(s: &Arithmetic<F>, c: Confidence) -> CIResult<Interval<F>> {
    CI_CALLS.fetch_add(1, SeqCst);
    CI_COUNT.store(s.count, SeqCst);
    CI_KIND.store(conf_kind(&c) as usize, SeqCst);
    Ok(Interval::TwoSided(F::zero(), F::one()))
}
pub(crate) fn is_ci_marker_f64(r: &CIResult<Interval<f64>>) -> bool {
    matches!(r, Ok(Interval::TwoSided(a, b)) if *a == 0.0 && *b == 1.0)
}

// ------------------------------------------------------------------------------------------------ decomposition stubs
// sample_mean / sample_std_dev replaced by "any value of F" (NaN and infinities included) -- a sound
// over-approximation for totality, given that the real functions do not panic on a non-empty state
// (c11_arith_sample_stats_total_when_nonempty); called on an empty state the real sample_std_dev underflows
// count - 1, which the stub reports through its precondition assertion.
pub(crate) fn sample_mean_any<F: Float>(s: &Arithmetic<F>) -> F {
    assert!(s.count >= 1, "C11:sample_mean-called-on-empty-state");
    any_float::<F>()
}
pub(crate) fn sample_std_dev_any<F: Float>(s: &Arithmetic<F>) -> F {
    assert!(s.count >= 1, "C11:sample_std_dev-called-on-empty-state");
    any_float::<F>()
}
fn any_float<F: Float>() -> F {
    let x: f64 = kani::any();
    F::from(x).unwrap_or(F::nan())
}

#[kani::proof]
fn c11_arith_sample_stats_total_when_nonempty() {
    let st = any_arith_f64();
    kani::assume(st.count >= 1);
    let _ = (st.sample_mean(), st.sample_variance(), st.sample_std_dev(), st.sample_sem(), st.sample_count());
    let st32 = any_arith_f32();
    kani::assume(st32.count >= 1);
    let _ = (st32.sample_mean(), st32.sample_variance(), st32.sample_std_dev(), st32.sample_sem());
}

// ------------------------------------------------------------------------------------------------ C05 / C11: Harmonic, Geometric
// a non-positive observation is rejected with NonPositiveValue carrying the value, state bitwise unchanged;
// a positive one is counted
#[kani::proof]
#[kani::stub(<f64 as num_traits::Float>::ln, ln_stub_f64)]
fn c05_geometric_append_rejects_nonpositive_f64() {
    let a = any_arith_f64();
    kani::assume(a.count < usize::MAX);
    let mut g = Geometric { log_space: a };
    let x: f64 = kani::any();
    kani::cover!(x == 0.0 && x.is_sign_negative(), "-0.0");
    kani::cover!(x == f64::NEG_INFINITY, "-inf");
    kani::cover!(x > 0.0, "positive");
    match g.append(x) {
        Err(CIError::NonPositiveValue(v)) => {
            assert!(x <= 0.0, "C05:geometric:append:rejects-positive");
            assert!(v.to_bits() == x.to_bits(), "C05:geometric:append:error-payload");
            assert!(arith_bits_f64(&g.log_space) == arith_bits_f64(&a), "C05:geometric:append:state-changed-on-rejection");
        }
        Ok(()) => {
            assert!(!(x <= 0.0), "C05:geometric:append:accepts-nonpositive");
            assert!(g.log_space.count == a.count + 1 && g.sample_count() == a.count + 1, "C05:geometric:append:count");
        }
        Err(_) => assert!(false, "C05:geometric:append:wrong-error-variant"),
    }
}
#[kani::proof]
fn c05_harmonic_append_rejects_nonpositive_f64() {
    let a = any_arith_f64();
    kani::assume(a.count < usize::MAX);
    let mut h = Harmonic { recip_space: a };
    let x: f64 = kani::any();
    kani::cover!(x == 0.0 && x.is_sign_negative(), "-0.0");
    kani::cover!(x < 0.0, "negative");
    match h.append(x) {
        Err(CIError::NonPositiveValue(v)) => {
            assert!(x <= 0.0, "C05:harmonic:append:rejects-positive");
            assert!(v.to_bits() == x.to_bits(), "C05:harmonic:append:error-payload");
            assert!(arith_bits_f64(&h.recip_space) == arith_bits_f64(&a), "C05:harmonic:append:state-changed-on-rejection");
        }
        Ok(()) => {
            assert!(!(x <= 0.0), "C05:harmonic:append:accepts-nonpositive");
            assert!(h.recip_space.count == a.count + 1 && h.sample_count() == a.count + 1, "C05:harmonic:append:count");
        }
        Err(_) => assert!(false, "C05:harmonic:append:wrong-error-variant"),
    }
}
#[kani::proof]
fn c05_append_rejects_nonpositive_f32() {
    let a = any_arith_f32();
    kani::assume(a.count < usize::MAX);
    let mut h = Harmonic { recip_space: a };
    let x: f32 = kani::any();
    kani::assume(x <= 0.0);
    let r = h.append(x);
    assert!(matches!(r, Err(CIError::NonPositiveValue(v)) if v == x as f64), "C05:harmonic:append:f32:rejection");
    assert!(arith_bits_f32(&h.recip_space) == arith_bits_f32(&a), "C05:harmonic:append:f32:state-changed-on-rejection");
    let mut g = Geometric { log_space: a };
    let r = g.append(x);
    assert!(matches!(r, Err(CIError::NonPositiveValue(v)) if v == x as f64), "C05:geometric:append:f32:rejection");
    assert!(arith_bits_f32(&g.log_space) == arith_bits_f32(&a), "C05:geometric:append:f32:state-changed-on-rejection");
}

// extend / from_iter / ci stop at the first non-positive value, at every position of otherwise valid data
#[kani::proof]
#[kani::unwind(6)]
#[kani::stub(crate::mean::Arithmetic::append, append_recorder)]
#[kani::stub(crate::mean::Arithmetic::ci_mean, ci_mean_marker)]
#[kani::stub(<f64 as num_traits::Float>::ln, ln_stub_f64)]
fn c05_nonpositive_at_every_position() {
    let data = any_prefix_f64::<3>();
    let mut first_bad = 3;
    let mut j = 3;
    while j > 0 {
        j -= 1;
        if j < data.len && data.d[j] <= 0.0 {
            first_bad = j;
        }
    }
    kani::cover!(first_bad == 2 && data.len == 3, "non-positive value at the last position");
    kani::cover!(first_bad == 0, "non-positive value first");
    let which: bool = kani::any();
    let r = if which { Harmonic::<f64>::ci(any_conf(), &data) } else { Geometric::<f64>::ci(any_conf(), &data) };
    if first_bad < data.len {
        assert!(matches!(r, Err(CIError::NonPositiveValue(v)) if v.to_bits() == data.d[first_bad].to_bits()), "C05:ci:nonpositive-not-reported");
        assert!(rec_calls() == first_bad, "C05:ci:appends-before-the-rejected-value");
    } else {
        assert!(rec_calls() == data.len && CI_CALLS.load(SeqCst) == 1 && CI_COUNT.load(SeqCst) == data.len, "C05:ci:feeds-every-value-then-ci_mean");
    }
}

// C11 glue: Harmonic / Geometric ci_mean on top of an arbitrary arithmetic result (any Ok interval of the right
// kind with non-NaN ordered bounds -- what c11_arith_ci_mean_state_* establishes -- or any documented error)
pub(crate) static GLUE_LO: AtomicU64 = AtomicU64::new(0);
pub(crate) static GLUE_HI: AtomicU64 = AtomicU64::new(0);
pub(crate) fn ci_mean_any<F: Float>(_s: &Arithmetic<F>, c: Confidence) -> CIResult<Interval<F>> {
    if kani::any() {
        return Err(if kani::any() { CIError::TooFewSamples(kani::any()) } else { CIError::InvalidInputData });
    }
    let (lo, hi): (f64, f64) = (kani::any(), kani::any());
    kani::assume(!lo.is_nan() && !hi.is_nan() && lo <= hi);
    GLUE_LO.store(lo.to_bits(), SeqCst);
    GLUE_HI.store(hi.to_bits(), SeqCst);
    let (l, h) = (F::from(lo).unwrap(), F::from(hi).unwrap());
    CI_KIND.store(conf_kind(&c) as usize, SeqCst);
    Ok(match c {
        Confidence::TwoSided(_) => Interval::TwoSided(l, h),
        Confidence::UpperOneSided(_) => Interval::UpperOneSided(l),
        Confidence::LowerOneSided(_) => Interval::LowerOneSided(h),
    })
}
#[kani::proof]
#[kani::stub(crate::mean::Arithmetic::ci_mean, ci_mean_any)]
fn c11_harmonic_ci_mean_glue_f64() {
    let h = Harmonic { recip_space: any_arith_f64() };
    let conf = any_conf();
    match h.ci_mean(conf) {
        Ok(i) => {
            assert!(well_formed_f64(&i), "C11:harmonic:ci_mean:ok-with-nan-or-inverted-bounds");
            assert!(iv_kind(&i) == conf_kind(&conf), "C10:harmonic:kind-mismatch");
            // the reciprocal-space interval was requested with the flipped confidence
            assert!(CI_KIND.load(SeqCst) == conf_kind(&conf.flipped()) as usize, "C05:harmonic:ci_mean:not-flipped");
            // (which reciprocal lands in which slot is decided by engine M on the extracted terms: a recomputed
            // division in the harness would be a float miter)
        }
        Err(e) => assert!(documented_ci_error(&e), "C11:harmonic:ci_mean:undocumented-error-variant"),
    }
}
#[kani::proof]
#[kani::stub(crate::mean::Arithmetic::ci_mean, ci_mean_any)]
#[kani::stub(<f64 as num_traits::Float>::exp, exp_stub_f64)]
fn c11_geometric_ci_mean_glue_f64() {
    let g = Geometric { log_space: any_arith_f64() };
    let conf = any_conf();
    match g.ci_mean(conf) {
        Ok(i) => {
            assert!(iv_kind(&i) == conf_kind(&conf), "C10:geometric:kind-mismatch");
            assert!(CI_KIND.load(SeqCst) == conf_kind(&conf) as usize, "C05:geometric:ci_mean:confidence-changed");
            match i {
                Interval::TwoSided(a, b) => assert!(!a.is_nan() && !b.is_nan(), "C11:geometric:ci_mean:nan-bound"),
                Interval::UpperOneSided(a) => assert!(!a.is_nan(), "C11:geometric:ci_mean:nan-bound"),
                Interval::LowerOneSided(b) => assert!(!b.is_nan(), "C11:geometric:ci_mean:nan-bound"),
            }
        }
        Err(e) => assert!(documented_ci_error(&e), "C11:geometric:ci_mean:undocumented-error-variant"),
    }
}

// ------------------------------------------------------------------------------------------------ C01 / C09: feeding loops
// extend / from_iter / ci are folds of append over the data in order (append replaced by the recorder, ci_mean by
// the marker): both call styles deliver the same observations to the same accumulator
#[kani::proof]
#[kani::unwind(6)]
#[kani::stub(crate::mean::Arithmetic::append, append_recorder)]
#[kani::stub(crate::mean::Arithmetic::ci_mean, ci_mean_marker)]
fn c01_arith_feeding_is_a_fold_of_append() {
    let data = any_prefix_f64::<3>();
    let which: u8 = kani::any::<u8>() % 4;
    let tag0: usize = if which == 0 { kani::any() } else { 0 };
    kani::assume(tag0 <= 1000);
    let conf = any_conf();
    match which {
        0 => {
            let mut s = raw_arith(kani::any(), kani::any(), kani::any(), kani::any(), tag0);
            assert!(StatisticsOps::extend(&mut s, &data).is_ok() && s.count == tag0 + data.len, "C09:arith:extend:count");
        }
        1 => {
            let s = <Arithmetic<f64> as StatisticsOps<f64>>::from_iter(&data);
            assert!(matches!(s, Ok(st) if st.count == data.len), "C09:arith:from_iter:count");
        }
        2 => {
            let r = Arithmetic::<f64>::ci(conf, &data);
            assert!(is_ci_marker_f64(&r) && CI_CALLS.load(SeqCst) == 1 && CI_COUNT.load(SeqCst) == data.len && CI_KIND.load(SeqCst) == conf_kind(&conf) as usize, "C01:arith:ci:not-from_iter-then-ci_mean");
        }
        _ => {
            let r = <Arithmetic<f64> as MeanCI<f64>>::ci(conf, &data);
            let r2 = <Arithmetic<f64> as StatisticsOps<f64>>::ci(conf, &data);
            assert!(is_ci_marker_f64(&r) && is_ci_marker_f64(&r2) && CI_CALLS.load(SeqCst) == 2 && CI_COUNT.load(SeqCst) == data.len, "C01:arith:trait-ci:not-from_iter-then-ci_mean");
        }
    }
    kani::cover!(data.len == 3 && which == 2, "three observations through ci");
    let n = if which == 3 { 2 * data.len } else { data.len };
    assert!(rec_calls() == n, "C09:arith:feeding:number-of-appends");
    let mut i = 0;
    while i < 3 {
        if i < data.len {
            let (tag, bits) = rec(i);
            assert!(tag == tag0 + i && (bits == data.d[i].to_bits() || data.d[i].is_nan()), "C09:arith:feeding:observation-sequence");
        }
        i += 1;
    }
}

// the StatisticsOps trait methods are the inherent ones (same accumulator, same argument)
#[kani::proof]
#[kani::stub(crate::mean::Arithmetic::append, append_recorder)]
#[kani::stub(crate::mean::Arithmetic::ci_mean, ci_mean_marker)]
fn c01_arith_trait_methods_delegate() {
    let mut s = raw_arith(kani::any(), kani::any(), kani::any(), kani::any(), 7usize);
    let x: f64 = kani::any();
    kani::assume(!x.is_nan());
    assert!(StatisticsOps::append(&mut s, x).is_ok() && rec(0) == (7, x.to_bits()) && s.count == 8, "C09:arith:trait-append");
    let conf = any_conf();
    let r = StatisticsOps::ci_mean(&s, conf);
    assert!(is_ci_marker_f64(&r) && CI_COUNT.load(SeqCst) == 8 && CI_KIND.load(SeqCst) == conf_kind(&conf) as usize, "C01:arith:trait-ci_mean");
    assert!(StatisticsOps::sample_count(&s) == 8, "C09:arith:trait-sample_count");
}

// ------------------------------------------------------------------------------------------------ C09: exact parts of merging
#[kani::proof]
fn c09_mean_merge_counts() {
    let (a, b) = (any_arith_f64(), any_arith_f64());
    kani::assume(a.count <= usize::MAX / 2 && b.count <= usize::MAX / 2);
    assert!((a + b).count == a.count + b.count && a.add(b).count == a.count + b.count, "C09:arith:add-count");
    let mut c = a;
    c += b;
    assert!(c.count == a.count + b.count, "C09:arith:add-assign-count");
    let (h1, h2) = (Harmonic { recip_space: a }, Harmonic { recip_space: b });
    assert!((h1 + h2).sample_count() == a.count + b.count && h1.add(h2).sample_count() == a.count + b.count, "C09:harmonic:add-count");
    let mut h3 = h1;
    h3 += h2;
    assert!(h3.sample_count() == a.count + b.count, "C09:harmonic:add-assign-count");
    let (g1, g2) = (Geometric { log_space: a }, Geometric { log_space: b });
    assert!((g1 + g2).sample_count() == a.count + b.count && g1.add(g2).sample_count() == a.count + b.count, "C09:geometric:add-count");
    let mut g3 = g1;
    g3 += g2;
    assert!(g3.sample_count() == a.count + b.count, "C09:geometric:add-assign-count");
    // empty states
    let e = Arithmetic::<f64>::default();
    assert!(e.count == 0 && Arithmetic::<f64>::new().count == 0 && (a + e).count == a.count && (e + a).count == a.count, "C09:arith:default-neutral-count");
    assert!(arith_bits_f64(&e) == (0, 0, 0, 0, 0), "C09:arith:default-is-all-zero");
    assert!(Harmonic::<f64>::default().sample_count() == 0 && Geometric::<f64>::new().sample_count() == 0, "C09:wrappers:default-empty");
}

// queries never modify a state; copies are bitwise. (In safe Rust a `&self` method on a struct of plain floats and
// a usize cannot mutate it -- the crate forbids unsafe code and has no interior mutability -- so this is a
// type-system fact; the harness runs the cheap queries only and compares every field bitwise.)
#[kani::proof]
fn c09_mean_queries_pure() {
    let a = any_arith_f64();
    kani::assume(a.count >= 1);
    let before = arith_bits_f64(&a);
    let _ = (a.sample_mean(), a.sample_count());
    assert!(arith_bits_f64(&a) == before, "C09:arith:query-modifies-state");
    let c = a;
    let d = a.clone();
    assert!(arith_bits_f64(&c) == before && arith_bits_f64(&d) == before, "C09:arith:copy-bitwise");
    let h = Harmonic { recip_space: a };
    let _ = (h.sample_mean(), h.sample_count());
    assert!(arith_bits_f64(&h.recip_space) == before && arith_bits_f64(&h.clone().recip_space) == before, "C09:harmonic:query-modifies-state");
    let g = Geometric { log_space: a };
    let _ = g.sample_count();
    assert!(arith_bits_f64(&g.log_space) == before && arith_bits_f64(&g.clone().log_space) == before, "C09:geometric:query-modifies-state");
}

// ------------------------------------------------------------------------------------------------ thorough tier (C11)
#[kani::proof]
#[kani::unwind(5)]
#[kani::stub(<StudentsT as ContinuousCDF<f64, f64>>::inverse_cdf, icdf_t_stub)]
#[kani::stub(<Normal as ContinuousCDF<f64, f64>>::inverse_cdf, icdf_n_stub)]
fn t11_arith_ci_api_f32() {
    let data = any_prefix_f32::<3>();
    let conf = any_conf_practical();
    match Arithmetic::<f32>::ci(conf, &data) {
        Ok(i) => assert!(well_formed_f32(&i) && data.len >= 2, "C11:arith:ci:f32:ok-with-nan-or-too-few-samples"),
        Err(e) => assert!(documented_ci_error(&e), "C11:arith:ci:f32:undocumented-error-variant"),
    }
}
#[kani::proof]
#[kani::unwind(5)]
#[kani::stub(<StudentsT as ContinuousCDF<f64, f64>>::inverse_cdf, icdf_t_stub)]
#[kani::stub(<Normal as ContinuousCDF<f64, f64>>::inverse_cdf, icdf_n_stub)]
#[kani::stub(<f64 as num_traits::Float>::ln, ln_stub_f64)]
#[kani::stub(<f64 as num_traits::Float>::exp, exp_stub_f64)]
fn t11_geometric_harmonic_ci_api_f64() {
    let data = any_prefix_f64::<2>();
    let conf = any_conf_practical();
    match Geometric::<f64>::ci(conf, &data) {
        Ok(i) => assert!(well_formed_f64(&i) && data.len >= 2, "C11:geometric:ci:ok-with-nan-or-too-few-samples"),
        Err(e) => assert!(documented_ci_error(&e), "C11:geometric:ci:undocumented-error-variant"),
    }
    match Harmonic::<f64>::ci(conf, &data) {
        Ok(i) => assert!(well_formed_f64(&i) && data.len >= 2, "C11:harmonic:ci:ok-with-nan-or-too-few-samples"),
        Err(e) => assert!(documented_ci_error(&e), "C11:harmonic:ci:undocumented-error-variant"),
    }
}

// a rejected value in the middle of an extend leaves exactly the state after the valid prefix (earlier data is kept)
#[kani::proof]
#[kani::unwind(6)]
#[kani::stub(crate::mean::Arithmetic::append, append_recorder)]
#[kani::stub(<f64 as num_traits::Float>::ln, ln_stub_f64)]
fn c09_extend_error_keeps_earlier_data() {
    let data = any_prefix_f64::<3>();
    let mut first_bad = 3;
    let mut j = 3;
    while j > 0 {
        j -= 1;
        if j < data.len && data.d[j] <= 0.0 {
            first_bad = j;
        }
    }
    let tag0: usize = kani::any();
    kani::assume(tag0 >= 1 && tag0 <= 1000);
    let inner = raw_arith(kani::any(), kani::any(), kani::any(), kani::any(), tag0);
    let which: bool = kani::any();
    kani::cover!(first_bad == 1 && data.len == 3, "rejected value in the middle");
    let (r, count_after) = if which {
        let mut h = Harmonic { recip_space: inner };
        let r = StatisticsOps::extend(&mut h, &data);
        (r, h.recip_space.count)
    } else {
        let mut g = Geometric { log_space: inner };
        let r = StatisticsOps::extend(&mut g, &data);
        (r, g.log_space.count)
    };
    if first_bad < data.len {
        assert!(matches!(r, Err(CIError::NonPositiveValue(_))), "C09:extend:rejection-not-reported");
        assert!(count_after == tag0 + first_bad, "C09:extend:error-loses-or-duplicates-earlier-data");
        assert!(rec_calls() == first_bad, "C09:extend:appends-before-the-rejected-value");
    } else {
        assert!(r.is_ok() && count_after == tag0 + data.len && rec_calls() == data.len, "C09:extend:count");
    }
}
