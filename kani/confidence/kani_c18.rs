// C18 — Confidence values are valid by construction and obey their algebraic laws.
// Engine K, full width: every f64 / f32 bit pattern.
use super::*;
use core::cmp::Ordering;

fn valid(l: f64) -> bool {
    l > 0.0 && l < 1.0
}
fn any_conf() -> Confidence {
    let l: f64 = kani::any();
    kani::assume(valid(l));
    match kani::any::<u8>() % 3 {
        0 => Confidence::TwoSided(l),
        1 => Confidence::UpperOneSided(l),
        _ => Confidence::LowerOneSided(l),
    }
}
fn kind_of(c: &Confidence) -> u8 {
    match c {
        Confidence::TwoSided(_) => 0,
        Confidence::UpperOneSided(_) => 1,
        Confidence::LowerOneSided(_) => 2,
    }
}

// constructors return (with the right kind and exact level) for every valid level
#[kani::proof]
fn c18_ctor_valid() {
    let l: f64 = kani::any();
    kani::assume(valid(l));
    kani::cover!(l < 1e-300, "tiny level");
    kani::cover!(l > 0.9999999999999998, "level next to one");
    let a = Confidence::new(l);
    let b = Confidence::new_two_sided(l);
    let u = Confidence::new_upper(l);
    let w = Confidence::new_lower(l);
    assert!(kind_of(&a) == 0 && kind_of(&b) == 0 && kind_of(&u) == 1 && kind_of(&w) == 2, "C18:ctor:kind");
    assert!(a.level().to_bits() == l.to_bits() && b.level().to_bits() == l.to_bits()
        && u.level().to_bits() == l.to_bits() && w.level().to_bits() == l.to_bits(), "C18:ctor:level");
}

// constructors panic for every level outside (0,1), NaN and infinities included: the documented panic is the
// only failing check; the marker after the call must be unreachable
macro_rules! ctor_invalid {
    ($name:ident, $ctor:path, $marker:expr) => {
        #[kani::proof]
        fn $name() {
            let l: f64 = kani::any();
            kani::assume(!valid(l));
            let _c = $ctor(l);
            assert!(false, $marker);
        }
    };
}
ctor_invalid!(c18_new_invalid_panics, Confidence::new, "C18:new:returned-for-invalid-level");
ctor_invalid!(c18_new_two_sided_invalid_panics, Confidence::new_two_sided, "C18:new_two_sided:returned-for-invalid-level");
ctor_invalid!(c18_new_upper_invalid_panics, Confidence::new_upper, "C18:new_upper:returned-for-invalid-level");
ctor_invalid!(c18_new_lower_invalid_panics, Confidence::new_lower, "C18:new_lower:returned-for-invalid-level");

#[kani::proof]
fn c18_try_from_f64() {
    let l: f64 = kani::any();
    kani::cover!(l.is_nan(), "NaN level");
    kani::cover!(l == 0.0 && l.is_sign_negative(), "-0.0 level");
    kani::cover!(l.is_infinite(), "infinite level");
    kani::cover!(valid(l), "valid level");
    match Confidence::try_from(l) {
        Ok(c) => {
            assert!(valid(l), "C18:try_from:accepts-invalid");
            assert!(kind_of(&c) == 0 && c.level().to_bits() == l.to_bits(), "C18:try_from:value");
        }
        Err(CIError::InvalidConfidenceLevel(x)) => {
            assert!(!valid(l), "C18:try_from:rejects-valid");
            assert!(x.to_bits() == l.to_bits() || (x.is_nan() && l.is_nan()), "C18:try_from:error-payload");
        }
        Err(_) => assert!(false, "C18:try_from:wrong-error-variant"),
    }
}

#[kani::proof]
fn c18_try_from_f32() {
    let l: f32 = kani::any();
    let ok = l > 0.0 && l < 1.0;
    kani::cover!(ok, "valid f32 level");
    kani::cover!(l.is_nan(), "NaN f32 level");
    match Confidence::try_from(l) {
        Ok(c) => {
            assert!(ok, "C18:try_from_f32:accepts-invalid");
            assert!(kind_of(&c) == 0 && c.level() == l as f64, "C18:try_from_f32:value");
        }
        Err(CIError::InvalidConfidenceLevel(_)) => assert!(!ok, "C18:try_from_f32:rejects-valid"),
        Err(_) => assert!(false, "C18:try_from_f32:wrong-error-variant"),
    }
}

#[kani::proof]
fn c18_accessors() {
    let c = any_conf();
    let k = kind_of(&c);
    assert!(c.is_two_sided() == (k == 0), "C18:is_two_sided");
    assert!(c.is_one_sided() == (k != 0), "C18:is_one_sided");
    assert!(c.is_upper() == (k == 1), "C18:is_upper");
    assert!(c.is_lower() == (k == 2), "C18:is_lower");
    let name = c.kind();
    let want: &str = match k {
        0 => "two-sided",
        1 => "upper one-sided",
        _ => "lower one-sided",
    };
    assert!(name.len() == want.len(), "C18:kind-string");
    assert!(valid(c.level()), "C18:level-in-range");
    // percent is level*100: one multiplication, compared against the same expression on the accessor value
    let p = c.percent();
    assert!(p > 0.0 && p <= 100.0, "C18:percent-range");
}

#[kani::proof]
#[kani::unwind(20)]
fn c18_kind_string_exact() {
    let c = any_conf();
    let want: &str = match kind_of(&c) {
        0 => "two-sided",
        1 => "upper one-sided",
        _ => "lower one-sided",
    };
    assert!(c.kind().as_bytes() == want.as_bytes(), "C18:kind-string-bytes");
}

#[kani::proof]
fn c18_flipped() {
    let c = any_conf();
    let f = c.flipped();
    assert!(f.level().to_bits() == c.level().to_bits(), "C18:flipped:level");
    let (k, kf) = (kind_of(&c), kind_of(&f));
    assert!((k == 0 && kf == 0) || (k == 1 && kf == 2) || (k == 2 && kf == 1), "C18:flipped:kind");
    let ff = f.flipped();
    assert!(kind_of(&ff) == k && ff.level().to_bits() == c.level().to_bits(), "C18:flipped:involution");
    assert!(ff == c, "C18:flipped:involution-eq");
}

#[kani::proof]
fn c18_order_and_eq() {
    let a = any_conf();
    let b = any_conf();
    let pc = a.partial_cmp(&b);
    let same_kind = kind_of(&a) == kind_of(&b);
    kani::cover!(same_kind && a.level() < b.level(), "ordered pair");
    kani::cover!(!same_kind, "pair of different kinds");
    assert!(pc.is_some() == same_kind, "C18:ordered-iff-same-kind");
    if same_kind {
        let want = if a.level() < b.level() { Ordering::Less } else if a.level() > b.level() { Ordering::Greater } else { Ordering::Equal };
        assert!(pc == Some(want), "C18:order-by-level");
    }
    assert!((a == b) == (same_kind && a.level() == b.level()), "C18:eq-kind-and-level");
    assert!((pc == Some(Ordering::Equal)) == (a == b), "C18:cmp-equal-iff-eq");
    assert!((a < b) == (same_kind && a.level() < b.level()), "C18:lt-operator");
    assert!((a > b) == (same_kind && a.level() > b.level()), "C18:gt-operator");
}

#[kani::proof]
fn c18_default_and_copy() {
    let d = Confidence::default();
    assert!(kind_of(&d) == 0 && d.level() == 0.95, "C18:default");
    let c = any_conf();
    let c2 = c;
    let c3 = c.clone();
    assert!(c2 == c && c3 == c, "C18:copy-eq");
}
