// Child module of `comparison`: K harnesses for C04 (feeding, length mismatch), C09 (exact parts), C11 (totality).
#![allow(dead_code)]
use super::*;
use crate::kani_support::*;
use crate::mean::kani_mean::*;
use crate::mean::Arithmetic;
use statrs::distribution::{ContinuousCDF, Normal, StudentsT};

pub(crate) fn raw_paired_f64(a: Arithmetic<f64>) -> Paired<f64> {
    Paired { stats: a }
}
pub(crate) fn raw_unpaired_f64(a: Arithmetic<f64>, b: Arithmetic<f64>) -> Unpaired<f64> {
    Unpaired { stats_a: a, stats_b: b }
}
pub(crate) fn paired_inner_f64(p: &Paired<f64>) -> Arithmetic<f64> {
    p.stats
}
fn tagged(count: usize) -> Arithmetic<f64> {
    raw_arith(kani::any(), kani::any(), kani::any(), kani::any(), count)
}

// ------------------------------------------------------------------------------------------------ C04
// unequal lengths are rejected with DifferentSampleSizes carrying both lengths (real accumulation, lengths <= 3)
#[kani::proof]
#[kani::unwind(6)]
fn c04_paired_extend_length_mismatch() {
    let a = any_prefix_f64::<3>();
    let b = any_prefix_f64::<3>();
    // from an arbitrary earlier state (any number of pairs already accumulated), not only from the empty one: the reported
    // lengths are those of the two sequences of THIS call
    let c0: usize = kani::any();
    kani::assume(c0 <= usize::MAX / 2);
    let mut p = raw_paired_f64(tagged(c0));
    let r = p.extend(&a, &b);
    kani::cover!(c0 == 0 && a.len == 3 && b.len == 1, "first longer, fresh state");
    kani::cover!(c0 == 4 && a.len == 1 && b.len == 3, "second longer, four pairs present");
    kani::cover!(a.len == 3 && b.len == 1, "first longer");
    kani::cover!(a.len == 0 && b.len == 2, "second longer");
    kani::cover!(a.len == b.len && a.len == 3, "equal lengths");
    match r {
        Ok(()) => {
            assert!(a.len == b.len, "C04:paired:extend:accepts-unequal-lengths");
            assert!(p.sample_count() == c0 + a.len, "C04:paired:extend:count");
        }
        Err(CIError::DifferentSampleSizes(x, y)) => assert!(a.len != b.len && x == a.len && y == b.len, "C04:paired:extend:different-sizes-payload"),
        Err(_) => assert!(false, "C04:paired:extend:wrong-error-variant"),
    }
}

// every Paired feeder hands a_i - b_i (in order) to the accumulator over the differences. The append is replaced by
// a recorder; to keep float recomputation out of SAT one operand of every pair is zero: a - 0 must be recorded as a
// and 0 - b as -b, which still separates a - b from b - a and from a + b.
fn diff_ok(i: usize, a: f64, b: f64, zero_b: bool, tag0: usize) -> bool {
    let (tag, bits) = rec(i);
    let want = if zero_b { a } else { -b };
    // x - 0 == x exactly; 0 - x == -x exactly except for the sign of a zero result
    tag == tag0 + i && (bits == want.to_bits() || (want == 0.0 && f64::from_bits(bits) == 0.0))
}
#[kani::proof]
#[kani::unwind(6)]
#[kani::stub(crate::mean::Arithmetic::append, append_recorder)]
fn c04_paired_feeders_record_differences() {
    let zero_b: bool = kani::any();
    let len: usize = kani::any();
    kani::assume(len <= 3);
    let mut da: [f64; 3] = kani::any();
    let mut db: [f64; 3] = kani::any();
    let mut j = 0;
    while j < 3 {
        kani::assume(!da[j].is_nan() && !db[j].is_nan());
        if zero_b {
            db[j] = 0.0;
        } else {
            da[j] = 0.0;
        }
        j += 1;
    }
    let which: u8 = kani::any::<u8>() % 3;
    let tag0: usize = kani::any();
    kani::assume(tag0 <= 1000);
    loose_hints();
    let mut p = raw_paired_f64(tagged(tag0));
    match which {
        0 => {
            let (a, b) = (Prefix { d: da, len }, Prefix { d: db, len });
            assert!(p.extend(&a, &b).is_ok(), "C04:paired:extend:err-on-equal-lengths");
        }
        1 => {
            let t = Prefix { d: [(da[0], db[0]), (da[1], db[1]), (da[2], db[2])], len };
            assert!(p.extend_tuple(&t).is_ok(), "C04:paired:extend_tuple:err");
        }
        _ => {
            let mut i = 0;
            while i < 3 {
                if i < len {
                    assert!(p.append_pair(da[i], db[i]).is_ok(), "C04:paired:append_pair:err");
                }
                i += 1;
            }
        }
    }
    kani::cover!(len == 3 && which == 0, "three pairs through extend");
    kani::cover!(len == 2 && which == 1 && !zero_b, "two tuples, first operand zero");
    assert!(rec_calls() == len, "C04:paired:feeders:number-of-appends");
    let mut i = 0;
    while i < 3 {
        if i < len {
            assert!(diff_ok(i, da[i], db[i], zero_b, tag0), "C04:paired:feeders:difference-sequence");
        }
        i += 1;
    }
    assert!(p.sample_count() == tag0 + len, "C04:paired:feeders:count");
}

// one-shot Paired::ci = default + extend + ci_mean of the differences
#[kani::proof]
#[kani::unwind(6)]
#[kani::stub(crate::mean::Arithmetic::append, append_recorder)]
#[kani::stub(crate::mean::Arithmetic::ci_mean, ci_mean_marker)]
fn c04_paired_ci_composition() {
    let a = any_prefix_f64::<2>();
    let mut b = any_prefix_f64::<2>();
    b.d = [0.0, 0.0];
    kani::assume(!a.d[0].is_nan() && !a.d[1].is_nan());
    let conf = any_conf();
    let r = Paired::<f64>::ci(conf, &a, &b);
    if a.len == b.len {
        assert!(is_ci_marker_f64(&r), "C04:paired:ci:not-the-ci-of-the-differences");
        assert!(CI_CALLS.load(SeqCst) == 1 && CI_COUNT.load(SeqCst) == a.len && CI_KIND.load(SeqCst) == conf_kind(&conf) as usize, "C04:paired:ci:state-or-confidence-passed");
        assert!(rec_calls() == a.len, "C04:paired:ci:number-of-appends");
        let mut i = 0;
        while i < 2 {
            if i < a.len {
                assert!(diff_ok(i, a.d[i], 0.0, true, 0), "C04:paired:ci:difference-sequence");
            }
            i += 1;
        }
    } else {
        assert!(matches!(r, Err(CIError::DifferentSampleSizes(x, y)) if x == a.len && y == b.len), "C04:paired:ci:different-sizes");
    }
}
use core::sync::atomic::Ordering::SeqCst;

// Unpaired feeders: a-values reach stats_a (tag 1000..), b-values reach stats_b (tag 2000..), bitwise, in order
#[kani::proof]
#[kani::unwind(6)]
#[kani::stub(crate::mean::Arithmetic::append, append_recorder)]
fn c04_unpaired_feeders_route_to_the_right_sample() {
    let a = any_prefix_f64::<2>();
    let b = any_prefix_f64::<2>();
    let which: u8 = kani::any::<u8>() % 4;
    let mut u = raw_unpaired_f64(tagged(1000), tagged(2000));
    match which {
        0 => assert!(u.extend(&a, &b).is_ok(), "C04:unpaired:extend:err"),
        1 => {
            assert!(u.extend_a(&a).is_ok() && u.extend_b(&b).is_ok(), "C04:unpaired:extend_ab:err");
        }
        2 => {
            let mut i = 0;
            while i < 2 {
                if i < a.len {
                    assert!(u.append_a(a.d[i]).is_ok(), "C04:unpaired:append_a:err");
                }
                i += 1;
            }
            i = 0;
            while i < 2 {
                if i < b.len {
                    assert!(u.append_b(b.d[i]).is_ok(), "C04:unpaired:append_b:err");
                }
                i += 1;
            }
        }
        _ => {
            // stats_a_mut / stats_b_mut give the respective accumulators
            use crate::mean::StatisticsOps;
            assert!(u.stats_a_mut().extend(&a).is_ok() && u.stats_b_mut().extend(&b).is_ok(), "C04:unpaired:stats_mut:err");
        }
    }
    kani::cover!(a.len == 2 && b.len == 1, "unequal sizes");
    assert!(rec_calls() == a.len + b.len, "C04:unpaired:feeders:number-of-appends");
    let mut i = 0;
    while i < 4 {
        if i < a.len {
            let (tag, bits) = rec(i);
            assert!(tag == 1000 + i && (bits == a.d[i].to_bits() || a.d[i].is_nan()), "C04:unpaired:feeders:a-sequence");
        } else if i < a.len + b.len {
            let (tag, bits) = rec(i);
            let j = i - a.len;
            assert!(tag == 2000 + j && (bits == b.d[j].to_bits() || b.d[j].is_nan()), "C04:unpaired:feeders:b-sequence");
        }
        i += 1;
    }
    assert!(arith_count(u.stats_a()) == 1000 + a.len && arith_count(u.stats_b()) == 2000 + b.len, "C04:unpaired:feeders:counts");
}

#[kani::proof]
#[kani::unwind(6)]
#[kani::stub(crate::mean::Arithmetic::append, append_recorder)]
fn c04_unpaired_append_pair_and_from_iter() {
    let a = any_prefix_f64::<2>();
    let b = any_prefix_f64::<2>();
    let u = Unpaired::<f64>::from_iter(&a, &b);
    assert!(u.is_ok(), "C04:unpaired:from_iter:err");
    let u = u.unwrap();
    assert!(arith_count(u.stats_a()) == a.len && arith_count(u.stats_b()) == b.len && rec_calls() == a.len + b.len, "C04:unpaired:from_iter:counts");
    let before = rec_calls();
    let mut v = raw_unpaired_f64(tagged(1000), tagged(2000));
    let (x, y): (f64, f64) = (kani::any(), kani::any());
    kani::assume(!x.is_nan() && !y.is_nan());
    assert!(v.append_pair(x, y).is_ok(), "C04:unpaired:append_pair:err");
    assert!(rec_calls() == before + 2, "C04:unpaired:append_pair:number-of-appends");
    // the two records are (1000, x) and (2000, y) in some slots; only 4 slots are logged
    if before <= 2 {
        assert!(rec(before) == (1000, x.to_bits()) && rec(before + 1) == (2000, y.to_bits()), "C04:unpaired:append_pair:routing");
    }
    // new(a, b) stores the states as given
    let (sa, sb) = (any_arith_f64(), any_arith_f64());
    let n = Unpaired::new(sa, sb);
    assert!(arith_bits_f64(n.stats_a()) == arith_bits_f64(&sa) && arith_bits_f64(n.stats_b()) == arith_bits_f64(&sb), "C04:unpaired:new:states");
}

// one-shot Unpaired::ci = default + extend + ci_mean (count check through the real ci_mean is C11's; here: it must
// not confuse the samples: sizes (2,1) reach the accumulators as (2,1))
#[kani::proof]
#[kani::unwind(6)]
#[kani::stub(crate::mean::Arithmetic::append, append_recorder)]
fn c04_unpaired_ci_feeds_both_samples() {
    let a = any_prefix_f64::<2>();
    let b = any_prefix_f64::<2>();
    let mut u = Unpaired::<f64>::default();
    assert!(u.extend(&a, &b).is_ok(), "C04:unpaired:extend:err");
    assert!(arith_count(u.stats_a()) == a.len && arith_count(u.stats_b()) == b.len, "C04:unpaired:extend:counts");
}

// ------------------------------------------------------------------------------------------------ C09 (exact parts)
#[kani::proof]
fn c09_comparison_merge_counts() {
    let (p, q) = (raw_paired_f64(any_arith_f64()), raw_paired_f64(any_arith_f64()));
    let (np, nq) = (p.sample_count(), q.sample_count());
    kani::assume(np <= usize::MAX / 2 && nq <= usize::MAX / 2);
    let s = p.clone() + q.clone();
    assert!(s.sample_count() == np + nq, "C09:paired:add-count");
    let mut t = p.clone();
    t += q.clone();
    assert!(t.sample_count() == np + nq, "C09:paired:add-assign-count");
    let (u, v) = (raw_unpaired_f64(any_arith_f64(), any_arith_f64()), raw_unpaired_f64(any_arith_f64(), any_arith_f64()));
    let (ua, ub, va, vb) = (arith_count(u.stats_a()), arith_count(u.stats_b()), arith_count(v.stats_a()), arith_count(v.stats_b()));
    kani::assume(ua <= usize::MAX / 2 && ub <= usize::MAX / 2 && va <= usize::MAX / 2 && vb <= usize::MAX / 2);
    let w = u.clone() + v.clone();
    assert!(arith_count(w.stats_a()) == ua + va && arith_count(w.stats_b()) == ub + vb, "C09:unpaired:add-counts-a-with-a");
    let mut z = u.clone();
    z += v.clone();
    assert!(arith_count(z.stats_a()) == ua + va && arith_count(z.stats_b()) == ub + vb, "C09:unpaired:add-assign-counts");
}

// queries never modify a state (field-wise, bitwise); quantile oracles stubbed
#[kani::proof]
#[kani::stub(<StudentsT as ContinuousCDF<f64, f64>>::inverse_cdf, icdf_t_stub)]
#[kani::stub(<Normal as ContinuousCDF<f64, f64>>::inverse_cdf, icdf_n_stub)]
fn c09_comparison_queries_pure() {
    let a = any_arith_f64();
    kani::assume(arith_count(&a) >= 2);
    let p = raw_paired_f64(a);
    let _ = (p.sample_count(), p.sample_mean(), p.sample_sem());
    let _ = p.ci_mean(any_conf_practical());
    assert!(arith_bits_f64(&paired_inner_f64(&p)) == arith_bits_f64(&a), "C09:paired:query-modifies-state");
    let c = p.clone();
    assert!(arith_bits_f64(&paired_inner_f64(&c)) == arith_bits_f64(&a), "C09:paired:clone-bitwise");
}

// ------------------------------------------------------------------------------------------------ C11
// Unpaired::ci_mean from arbitrary pairs of states (any history of both samples); the per-sample statistics are
// replaced by arbitrary values (decomposition, see kani_mean.rs)
#[kani::proof]
#[kani::stub(crate::mean::Arithmetic::sample_mean, sample_mean_any)]
#[kani::stub(crate::mean::Arithmetic::sample_std_dev, sample_std_dev_any)]
#[kani::stub(<StudentsT as ContinuousCDF<f64, f64>>::inverse_cdf, icdf_t_stub)]
#[kani::stub(<Normal as ContinuousCDF<f64, f64>>::inverse_cdf, icdf_n_stub)]
fn c11_unpaired_ci_mean_state_f64() {
    let (a, b) = (any_arith_f64(), any_arith_f64());
    let (na, nb) = (arith_count(&a), arith_count(&b));
    let u = raw_unpaired_f64(a, b);
    let conf = any_conf_practical();
    kani::cover!(na == 0, "first sample empty");
    kani::cover!(na >= 2 && nb == 1, "second sample singleton");
    match u.ci_mean(conf) {
        Ok(i) => {
            assert!(well_formed_f64(&i), "C11:unpaired:ci_mean:ok-with-nan-or-inverted-bounds");
            assert!(na >= 2 && nb >= 2, "C11:unpaired:ci_mean:ok-with-fewer-than-two-samples");
        }
        Err(e) => {
            assert!(matches!(e, CIError::TooFewSamples(_) | CIError::InvalidInputData | CIError::IntervalError(_) | CIError::FloatConversionError(_)), "C11:unpaired:ci_mean:undocumented-error-variant");
            if na < 2 || nb < 2 {
                assert!(matches!(e, CIError::TooFewSamples(k) if k == na.min(nb) || k == na || k == nb), "C11:unpaired:ci_mean:too-few-samples-variant");
            }
        }
    }
}

// Paired: state level through the wrapper
#[kani::proof]
#[kani::stub(crate::mean::Arithmetic::ci_mean, ci_mean_marker)]
fn c11_paired_ci_mean_delegates() {
    let a = any_arith_f64();
    let p = raw_paired_f64(a);
    let conf = any_conf();
    let r = p.ci_mean(conf);
    assert!(is_ci_marker_f64(&r) && CI_CALLS.load(SeqCst) == 1 && CI_COUNT.load(SeqCst) == arith_count(&a) && CI_KIND.load(SeqCst) == conf_kind(&conf) as usize, "C04:paired:ci_mean:delegation");
}
