// Child module of `proportion`: K harnesses for C02 (domain, front-ends), C09 (exact merges), C11 (totality).
#![allow(dead_code)]
use super::*;
use crate::kani_support::*;
use crate::kani_support::{N_CALLS, N_LAST_P};
use core::sync::atomic::{AtomicUsize, Ordering::SeqCst};
use statrs::distribution::{ContinuousCDF, Normal, StudentsT};

pub(crate) fn raw_stats(population: usize, successes: usize) -> Stats {
    Stats { population, successes }
}
fn ok_shape(conf: &Confidence, i: &Interval<f64>) -> bool {
    // proportion intervals are always stored two-sided with 1 / 0 as the natural far end
    match (conf, i) {
        (Confidence::TwoSided(_), Interval::TwoSided(..)) => true,
        (Confidence::UpperOneSided(_), Interval::TwoSided(_, h)) => *h == 1.0,
        (Confidence::LowerOneSided(_), Interval::TwoSided(l, _)) => *l == 0.0,
        _ => false,
    }
}

// ------------------------------------------------------------------------------------------------ C02 / C11
// ci_wilson on every (n, k) in usize x usize: exact domain, documented error variants, no panic, no NaN
#[kani::proof]
#[kani::stub(<Normal as ContinuousCDF<f64, f64>>::inverse_cdf, icdf_n_stub)]
fn c02_wilson_domain_all_usize() {
    let n: usize = kani::any();
    let k: usize = kani::any();
    let conf = any_conf_practical();
    kani::cover!(n < usize::MAX && k == n + 1, "one success too many");
    kani::cover!(k == 1, "one success");
    kani::cover!(k >= 2 && n >= k && n - k == 1, "one failure");
    kani::cover!(k >= 2 && n >= k && n - k >= 2, "admissible counts");
    match ci_wilson(conf, n, k) {
        Err(CIError::InvalidSuccesses(a, b)) => assert!(k > n && a == k && b == n, "C02:wilson:domain:invalid-successes"),
        Err(CIError::TooFewSuccesses(a, b, _)) => assert!(k <= n && k < 2 && a == k && b == n, "C02:wilson:domain:too-few-successes"),
        Err(CIError::TooFewFailures(a, b, _)) => assert!(k <= n && k >= 2 && n - k < 2 && a == n - k && b == n, "C02:wilson:domain:too-few-failures"),
        Err(CIError::IntervalError(_)) => assert!(k >= 2 && k <= n && n - k >= 2, "C02:wilson:domain:interval-error-outside-domain"),
        Err(_) => assert!(false, "C02:wilson:domain:undocumented-error-variant"),
        Ok(i) => {
            assert!(k >= 2 && k <= n && n - k >= 2, "C02:wilson:domain:ok-outside-domain");
            assert!(well_formed_f64(&i), "C11:wilson:ok-with-nan-or-inverted-bounds");
            assert!(ok_shape(&conf, &i), "C02:wilson:shape");
        }
    }
}

// outcome classes only (cheap: the float formula never has to be evaluated to decide them), for every (n, k) in usize x usize --
// in particular beyond 2^53, where a guard written on the f64 conversions of the counts stops being exact (seeded change C03-H:
// `n_f < 2.` accepts one failure at n = 2^53 + 3). Part of the quick tier of C02 and C03 (the quantile ranks rest on it).
#[kani::proof]
#[kani::stub(<Normal as ContinuousCDF<f64, f64>>::inverse_cdf, icdf_n_stub)]
fn c02_wilson_outcome_class_all_usize() {
    let n: usize = kani::any();
    let k: usize = kani::any();
    let conf = any_conf_practical();
    kani::cover!(n > (1usize << 53) && k == n - 1, "one failure beyond 2^53");
    kani::cover!(n > (1usize << 53) && k >= 2 && k <= n && n - k >= 2, "admissible counts beyond 2^53");
    match ci_wilson(conf, n, k) {
        Err(CIError::InvalidSuccesses(a, b)) => assert!(k > n && a == k && b == n, "C02:wilson:domain:invalid-successes"),
        Err(CIError::TooFewSuccesses(a, b, _)) => assert!(k <= n && k < 2 && a == k && b == n, "C02:wilson:domain:too-few-successes"),
        Err(CIError::TooFewFailures(a, b, _)) => assert!(k <= n && k >= 2 && n - k < 2 && a == n - k && b == n, "C02:wilson:domain:too-few-failures"),
        Err(CIError::IntervalError(_)) | Ok(_) => assert!(k >= 2 && k <= n && n - k >= 2, "C02:wilson:domain:ok-outside-domain"),
        Err(_) => assert!(false, "C02:wilson:domain:undocumented-error-variant"),
    }
}

// Wald variant: no panic, no NaN, documented variants, for every (n, k) in usize x usize
#[kani::proof]
#[kani::stub(<Normal as ContinuousCDF<f64, f64>>::inverse_cdf, icdf_n_stub)]
fn c02_z_normal_domain_all_usize() {
    let n: usize = kani::any();
    let k: usize = kani::any();
    let conf = any_conf_practical();
    kani::cover!(n == 0 && k == 0, "empty population");
    kani::cover!(k <= n && k >= 10 && n - k >= 10, "admissible counts");
    match ci_z_normal(conf, n, k) {
        Err(CIError::InvalidSuccesses(a, b)) => assert!(k > n && a == k && b == n, "C02:z_normal:domain:invalid-successes"),
        Err(CIError::TooFewSuccesses(a, b, _)) => assert!(k <= n && a == k && b == n, "C02:z_normal:domain:too-few-successes"),
        Err(CIError::TooFewFailures(a, b, _)) => assert!(k <= n && a == n - k && b == n, "C02:z_normal:domain:too-few-failures"),
        Err(CIError::IntervalError(_)) => assert!(k <= n, "C02:z_normal:domain:interval-error"),
        Err(_) => assert!(false, "C02:z_normal:domain:undocumented-error-variant"),
        Ok(i) => {
            assert!(k <= n, "C02:z_normal:domain:ok-with-invalid-successes");
            assert!(well_formed_f64(&i), "C11:z_normal:ok-with-nan-or-inverted-bounds");
            assert!(ok_shape(&conf, &i), "C02:z_normal:shape");
        }
    }
}

// the "n*p >= 10 and n*q >= 10" rule on integer counts, n up to 2^32: accepted exactly when k >= 10 and n-k >= 10.
// Concretised scan positions are not needed: the comparison is decided symbolically over all n, k <= 2^32.
#[kani::proof]
#[kani::stub(<Normal as ContinuousCDF<f64, f64>>::inverse_cdf, icdf_n_stub)]
fn t02_z_normal_rule_exact() {
    let n: usize = kani::any();
    let k: usize = kani::any();
    kani::assume(n <= (1usize << 32) && k <= n);
    let conf = Confidence::TwoSided(0.95);
    let r = ci_z_normal(conf, n, k);
    let accepted = !matches!(r, Err(CIError::TooFewSuccesses(..)) | Err(CIError::TooFewFailures(..)));
    kani::cover!(k == 10 && accepted, "boundary success count accepted");
    if k >= 10 && n - k >= 10 {
        assert!(accepted, "C02:z_normal:rule:rejects-admissible-counts");
    } else {
        assert!(!accepted, "C02:z_normal:rule:accepts-inadmissible-counts");
    }
}

#[kani::proof]
fn c02_is_significant_all_usize() {
    let n: usize = kani::any();
    let k: usize = kani::any();
    kani::cover!(k > n, "more successes than population");
    let r = is_significant(n, k);
    if k <= n {
        assert!(r == (n > 30 && k > 5 && n - k > 5), "C02:is_significant:rule");
    } else {
        assert!(!r, "C11:is_significant:true-for-invalid-counts");
    }
    if k <= n {
        assert!(Stats::new(n, k).is_significant() == r, "C02:is_significant:stats");
    }
}

#[kani::proof]
fn c11_stats_new_valid() {
    let n: usize = kani::any();
    let k: usize = kani::any();
    kani::assume(k <= n);
    let s = Stats::new(n, k);
    assert!(s.population() == n && s.successes() == k, "C02:stats:new");
}
// documented panic: successes > population
#[kani::proof]
fn c11_stats_new_invalid_panics() {
    let n: usize = kani::any();
    let k: usize = kani::any();
    kani::assume(k > n);
    let _s = Stats::new(n, k);
    assert!(false, "C11:stats:new:returned-for-successes-above-population");
}

// success-ratio front end: every f64 rate, every n <= 2^32: no panic; non-positive rates rejected
#[kani::proof]
#[kani::stub(<Normal as ContinuousCDF<f64, f64>>::inverse_cdf, icdf_n_stub)]
fn c11_wilson_ratio_total() {
    let n: usize = kani::any();
    let rate: f64 = kani::any();
    let conf = any_conf_practical();
    kani::cover!(rate.is_nan(), "NaN rate");
    kani::cover!(rate > 1.0, "rate above one");
    match ci_wilson_ratio(conf, n, rate) {
        Ok(i) => assert!(well_formed_f64(&i) && rate > 0.0, "C11:wilson_ratio:ok-with-nan-or-nonpositive-rate"),
        Err(CIError::NonPositiveValue(_)) => assert!(!(rate > 0.0), "C11:wilson_ratio:nonpositive-variant"),
        Err(CIError::InvalidSuccesses(..)) | Err(CIError::TooFewSuccesses(..)) | Err(CIError::TooFewFailures(..)) | Err(CIError::IntervalError(_)) => {}
        Err(_) => assert!(false, "C11:wilson_ratio:undocumented-error-variant"),
    }
}

// ------------------------------------------------------------------------------------------------ C02 front-ends
// ci_wilson is replaced by a recorder: the front-ends must hand it exactly (len, #true) and return its result
static REC_N: AtomicUsize = AtomicUsize::new(usize::MAX);
static REC_K: AtomicUsize = AtomicUsize::new(usize::MAX);
static REC_CALLS: AtomicUsize = AtomicUsize::new(0);
fn wilson_recorder(_c: Confidence, n: usize, k: usize) -> CIResult<Interval<f64>> {
    REC_N.store(n, SeqCst);
    REC_K.store(k, SeqCst);
    REC_CALLS.fetch_add(1, SeqCst);
    Ok(Interval::TwoSided(0.25, 0.75))
}
fn is_marker(r: &CIResult<Interval<f64>>) -> bool {
    matches!(r, Ok(Interval::TwoSided(a, b)) if *a == 0.25 && *b == 0.75)
}

#[kani::proof]
#[kani::unwind(6)]
#[kani::stub(ci_wilson, wilson_recorder)]
fn c02_frontend_ci_true() {
    loose_hints();
    let d: [bool; 4] = kani::any();
    let len: usize = kani::any();
    kani::assume(len <= 4);
    let data = Prefix { d, len };
    let mut want = 0;
    let mut j = 0;
    while j < 4 {
        if j < len && d[j] {
            want += 1;
        }
        j += 1;
    }
    let r = ci_true(any_conf(), &data);
    kani::cover!(len == 4 && want == 2, "mixed data");
    assert!(is_marker(&r) && REC_CALLS.load(SeqCst) == 1, "C02:frontend:ci_true:delegation");
    assert!(REC_N.load(SeqCst) == len && REC_K.load(SeqCst) == want, "C02:frontend:ci_true:counts");
}

#[kani::proof]
#[kani::unwind(6)]
#[kani::stub(ci_wilson, wilson_recorder)]
fn c02_frontend_ci_if() {
    loose_hints();
    let d: [u8; 4] = kani::any();
    let len: usize = kani::any();
    kani::assume(len <= 4);
    let data = Prefix { d, len };
    let table: u8 = kani::any(); // symbolic predicate over the low 3 bits of the element
    let pred = |x: &u8| (table >> (*x & 7)) & 1 == 1;
    let mut want = 0;
    let mut j = 0;
    while j < 4 {
        if j < len && pred(&d[j]) {
            want += 1;
        }
        j += 1;
    }
    let r = ci_if(any_conf(), &data, pred);
    assert!(is_marker(&r) && REC_CALLS.load(SeqCst) == 1, "C02:frontend:ci_if:delegation");
    assert!(REC_N.load(SeqCst) == len && REC_K.load(SeqCst) == want, "C02:frontend:ci_if:counts");
}

#[kani::proof]
#[kani::stub(ci_wilson, wilson_recorder)]
fn c02_frontend_ci_and_stats_ci() {
    let n: usize = kani::any();
    let k: usize = kani::any();
    let r = ci(any_conf(), n, k);
    assert!(is_marker(&r) && REC_N.load(SeqCst) == n && REC_K.load(SeqCst) == k, "C02:frontend:ci:delegation");
    let s = raw_stats(n, k);
    let r2 = s.ci(any_conf());
    assert!(is_marker(&r2) && REC_N.load(SeqCst) == n && REC_K.load(SeqCst) == k && REC_CALLS.load(SeqCst) == 2, "C02:frontend:stats_ci:delegation");
}

// running Stats: extend / extend_if / from_iter / add_success / add_failure count exactly, from an arbitrary state
#[kani::proof]
#[kani::unwind(6)]
fn c02_stats_counting() {
    loose_hints();
    kani::cover!(LOOSE_HINT.load(SeqCst) == 1, "inexact size hints");
    let n0: usize = kani::any();
    let k0: usize = kani::any();
    kani::assume(k0 <= n0 && n0 <= usize::MAX - 8);
    let d: [bool; 4] = kani::any();
    let len: usize = kani::any();
    kani::assume(len <= 4);
    let mut want = 0;
    let mut j = 0;
    while j < 4 {
        if j < len && d[j] {
            want += 1;
        }
        j += 1;
    }
    let data = Prefix { d, len };
    let mut s = raw_stats(n0, k0);
    s.extend(&data);
    assert!(s.population() == n0 + len && s.successes() == k0 + want, "C02:stats:extend");
    let mut s2 = raw_stats(n0, k0);
    s2.extend_if(&data, |x: &bool| *x);
    assert!(s2 == s, "C02:stats:extend_if");
    let s3: Stats = d[..len].iter().copied().collect();
    assert!(s3.population() == len && s3.successes() == want, "C02:stats:from_iter");
    let mut s4 = raw_stats(n0, k0);
    s4.add_success();
    s4.add_failure();
    assert!(s4.population() == n0 + 2 && s4.successes() == k0 + 1, "C02:stats:add_success_failure");
}

// ------------------------------------------------------------------------------------------------ C09
#[kani::proof]
fn c09_proportion_stats_merge() {
    let (n1, k1, n2, k2): (usize, usize, usize, usize) = (kani::any(), kani::any(), kani::any(), kani::any());
    kani::assume(n1 <= usize::MAX / 2 && n2 <= usize::MAX / 2 && k1 <= n1 && k2 <= n2);
    let (a, b) = (raw_stats(n1, k1), raw_stats(n2, k2));
    let c = a + b;
    assert!(c.population() == n1 + n2 && c.successes() == k1 + k2, "C09:proportion:add-componentwise");
    let mut d = a;
    d += b;
    assert!(d == c, "C09:proportion:add-assign-agrees");
    assert!(b + a == c, "C09:proportion:commutative");
    assert!(a + Stats::default() == a && Stats::default() + a == a, "C09:proportion:default-neutral");
    let e = a;
    assert!(e == a && a.clone() == a, "C09:proportion:copy-eq");
    // queries do not modify
    let before = a;
    let _ = (a.population(), a.successes(), a.is_significant());
    assert!(a == before, "C09:proportion:query-modifies-state");
}

// every proportion call consults the normal quantile afresh at ITS OWN confidence (no dependence on earlier calls)
fn q_of(c: &Confidence) -> f64 {
    match c {
        Confidence::TwoSided(l) => 1.0 - (1.0 - l) / 2.0,
        Confidence::UpperOneSided(l) | Confidence::LowerOneSided(l) => *l,
    }
}
#[kani::proof]
#[kani::stub(<Normal as ContinuousCDF<f64, f64>>::inverse_cdf, icdf_n_stub)]
fn c06_wilson_quantile_per_call() {
    let c1 = any_conf();
    let c2 = any_conf();
    kani::cover!(c1.level() == c2.level() && conf_kind(&c1) != conf_kind(&c2), "same level, different kinds");
    let _ = ci_wilson(c1, 400, 120);
    assert!(N_CALLS.load(SeqCst) == 1 && N_LAST_P.load(SeqCst) == q_of(&c1).to_bits(), "C06:wilson:quantile-argument");
    let _ = ci_wilson(c2, 400, 120);
    assert!(N_CALLS.load(SeqCst) == 2 && N_LAST_P.load(SeqCst) == q_of(&c2).to_bits(), "C06:wilson:history-dependent");
}
#[kani::proof]
#[kani::stub(<Normal as ContinuousCDF<f64, f64>>::inverse_cdf, icdf_n_stub)]
fn c06_z_normal_quantile_per_call() {
    let c1 = any_conf();
    let c2 = any_conf();
    let _ = ci_z_normal(c1, 400, 120);
    assert!(N_CALLS.load(SeqCst) == 1 && N_LAST_P.load(SeqCst) == q_of(&c1).to_bits(), "C06:z_normal:quantile-argument");
    let _ = ci_z_normal(c2, 400, 120);
    assert!(N_CALLS.load(SeqCst) == 2 && N_LAST_P.load(SeqCst) == q_of(&c2).to_bits(), "C06:z_normal:history-dependent");
}
