// Child module of `quantile`: K harnesses for C03 (order statistics, entry-point agreement, rank arithmetic),
// C09 (exact merge) and C11 (totality).
#![allow(dead_code)]
use super::*;
use crate::kani_support::*;
use crate::error::CIError;
use core::sync::atomic::{AtomicU64, AtomicUsize, Ordering::SeqCst};
use statrs::distribution::{ContinuousCDF, Normal, StudentsT};

pub(crate) fn raw_qstats(population: usize) -> Stats {
    Stats { population }
}

// ---- decomposition stub: ci_indices returns an arbitrary in-range index pair of the requested kind (or an
// error); what the real ci_indices returns is decided by the rank harnesses below
static IDX_LO: AtomicUsize = AtomicUsize::new(0);
static IDX_HI: AtomicUsize = AtomicUsize::new(0);
static IDX_ERR: AtomicUsize = AtomicUsize::new(0);
static IDX_LEN: AtomicUsize = AtomicUsize::new(0);
static IDX_CALLS: AtomicUsize = AtomicUsize::new(0);
fn ci_indices_stub(confidence: Confidence, data_len: usize, _quantile: f64) -> CIResult<Interval<usize>> {
    IDX_LEN.store(data_len, SeqCst);
    IDX_CALLS.fetch_add(1, SeqCst);
    if IDX_ERR.load(SeqCst) == 1 {
        return Err(CIError::TooFewSamples(data_len));
    }
    let (l, h) = (IDX_LO.load(SeqCst), IDX_HI.load(SeqCst));
    match confidence {
        Confidence::TwoSided(_) => Ok(Interval::TwoSided(l, h)),
        Confidence::UpperOneSided(_) => Ok(Interval::UpperOneSided(l)),
        Confidence::LowerOneSided(_) => Ok(Interval::LowerOneSided(h)),
    }
}
fn choose_indices(n: usize) -> (usize, usize, bool) {
    let l: usize = kani::any();
    let h: usize = kani::any();
    let err: bool = kani::any();
    kani::assume(err || (l <= h && h < n));
    IDX_LO.store(l, SeqCst);
    IDX_HI.store(h, SeqCst);
    IDX_ERR.store(err as usize, SeqCst);
    (l, h, err)
}
// r-th order statistic (0-based) of d[..n] by rank counting, ties included
fn is_order_stat<const N: usize>(d: &[u8; N], n: usize, r: usize, v: u8) -> bool {
    let mut less = 0;
    let mut leq = 0;
    let mut j = 0;
    while j < N {
        if j < n {
            if d[j] < v {
                less += 1;
            }
            if d[j] <= v {
                leq += 1;
            }
        }
        j += 1;
    }
    less <= r && r < leq
}
fn check_selected<const N: usize>(conf: &Confidence, d: &[u8; N], n: usize, l: usize, h: usize, r: &CIResult<Interval<u8>>) -> bool {
    match (conf, r) {
        (Confidence::TwoSided(_), Ok(Interval::TwoSided(a, b))) => is_order_stat(d, n, l, *a) && is_order_stat(d, n, h, *b),
        (Confidence::UpperOneSided(_), Ok(Interval::UpperOneSided(a))) => is_order_stat(d, n, l, *a),
        (Confidence::LowerOneSided(_), Ok(Interval::LowerOneSided(b))) => is_order_stat(d, n, h, *b),
        _ => false,
    }
}

// ------------------------------------------------------------------------------------------------ C03
// fixed-capacity entry point: copies, sorts, selects the l-th / h-th order statistics, whatever the input order
fn max_size_case<const N: usize>() {
    let data = Prefix::<u8, N> { d: kani::any(), len: N };
    let (l, h, err) = choose_indices(N);
    let conf = any_conf();
    let r = ci_max_size::<u8, _, N>(conf, &data, 0.5);
    assert!(IDX_LEN.load(SeqCst) == N && IDX_CALLS.load(SeqCst) == 1, "C03:max_size:passes-sample-length");
    if err {
        assert!(matches!(r, Err(CIError::TooFewSamples(_))), "C03:max_size:propagates-error");
    } else {
        assert!(check_selected(&conf, &data.d, N, l, h, &r), "C03:max_size:order-statistics");
    }
}
#[kani::proof]
#[kani::unwind(7)]
#[kani::stub(ci_indices, ci_indices_stub)]
fn c03_ci_max_size_selects_order_statistics_n4() {
    max_size_case::<4>();
}
#[kani::proof]
#[kani::unwind(7)]
#[kani::stub(ci_indices, ci_indices_stub)]
fn c03_ci_max_size_selects_order_statistics_n5() {
    max_size_case::<5>();
}

// heap entry point (Vec + sort_by) agrees with the fixed-capacity one
#[kani::proof]
#[kani::unwind(7)]
#[kani::stub(ci_indices, ci_indices_stub)]
fn c03_ci_vec_selects_order_statistics_n4() {
    let data = Prefix::<u8, 4> { d: kani::any(), len: 4 };
    let (l, h, err) = choose_indices(4);
    let conf = any_conf();
    let r = ci::<u8, _>(conf, &data, 0.5);
    if err {
        assert!(matches!(r, Err(CIError::TooFewSamples(_))), "C03:ci:propagates-error");
    } else {
        assert!(check_selected(&conf, &data.d, 4, l, h, &r), "C03:ci:order-statistics");
    }
    let r2 = ci_max_size::<u8, _, 4>(conf, &data, 0.5);
    let same = match (&r, &r2) {
        (Ok(a), Ok(b)) => a == b,
        (Err(_), Err(_)) => true,
        _ => false,
    };
    assert!(same, "C03:ci-vs-max_size:disagree");
}

// pre-sorted entry point maps ranks to elements
#[kani::proof]
#[kani::unwind(7)]
#[kani::stub(ci_indices, ci_indices_stub)]
fn c03_ci_sorted_unchecked_maps_ranks() {
    let d: [u8; 5] = kani::any();
    let n: usize = kani::any();
    kani::assume(n <= 5);
    kani::assume(d[0] <= d[1] && d[1] <= d[2] && d[2] <= d[3] && d[3] <= d[4]);
    let (l, h, err) = choose_indices(n);
    let conf = any_conf();
    let q: f64 = kani::any();
    kani::assume(q > 0.0 && q < 1.0);
    let r = ci_sorted_unchecked(conf, &d[..n], q);
    if !err {
        let ok = match (&conf, &r) {
            (Confidence::TwoSided(_), Ok(Interval::TwoSided(a, b))) => *a == d[l] && *b == d[h],
            (Confidence::UpperOneSided(_), Ok(Interval::UpperOneSided(a))) => *a == d[l],
            (Confidence::LowerOneSided(_), Ok(Interval::LowerOneSided(b))) => *b == d[h],
            _ => false,
        };
        assert!(ok, "C03:sorted_unchecked:rank-to-element");
    } else {
        assert!(r.is_err(), "C03:sorted_unchecked:propagates-error");
    }
}

// order independence: two inputs that are permutations of each other give the same interval
#[kani::proof]
#[kani::unwind(7)]
#[kani::stub(ci_indices, ci_indices_stub)]
fn c03_order_independent() {
    let a = Prefix::<u8, 4> { d: kani::any(), len: 4 };
    let b = Prefix::<u8, 4> { d: kani::any(), len: 4 };
    // equal multisets, by counting
    let mut j = 0;
    while j < 4 {
        let v = a.d[j];
        let (mut ca, mut cb) = (0, 0);
        let mut i = 0;
        while i < 4 {
            if a.d[i] == v {
                ca += 1;
            }
            if b.d[i] == v {
                cb += 1;
            }
            i += 1;
        }
        kani::assume(ca == cb);
        j += 1;
    }
    let (_l, _h, err) = choose_indices(4);
    kani::assume(!err);
    let conf = any_conf();
    kani::cover!(a.d[0] != b.d[0], "genuinely reordered");
    let ra = ci_max_size::<u8, _, 4>(conf, &a, 0.5);
    let rb = ci_max_size::<u8, _, 4>(conf, &b, 0.5);
    assert!(matches!((&ra, &rb), (Ok(x), Ok(y)) if x == y), "C03:order-dependent-result");
}

// ---- rank arithmetic of Stats::ci / Stats::index. ci_wilson is replaced by "any 0 <= lo <= k/n <= hi <= 1 of the
// documented shape" (closed by C02 / C17 on the real ci_wilson), or its documented domain errors.
static W_LO: AtomicU64 = AtomicU64::new(0);
static W_HI: AtomicU64 = AtomicU64::new(0);
static W_N: AtomicUsize = AtomicUsize::new(0);
static W_K: AtomicUsize = AtomicUsize::new(0);
fn wilson_stub(confidence: Confidence, n: usize, k: usize) -> CIResult<Interval<f64>> {
    W_N.store(n, SeqCst);
    W_K.store(k, SeqCst);
    if k > n {
        return Err(CIError::InvalidSuccesses(k, n));
    }
    if k < 2 {
        return Err(CIError::TooFewSuccesses(k, n, k as f64));
    }
    if n - k < 2 {
        return Err(CIError::TooFewFailures(n - k, n, (n - k) as f64));
    }
    let lo: f64 = kani::any();
    let hi: f64 = kani::any();
    let p = k as f64 / n as f64;
    kani::assume(0.0 <= lo && lo <= p && p <= hi && hi <= 1.0);
    W_LO.store(lo.to_bits(), SeqCst);
    W_HI.store(hi.to_bits(), SeqCst);
    match confidence {
        Confidence::TwoSided(_) => Ok(Interval::TwoSided(lo, hi)),
        Confidence::UpperOneSided(_) => Ok(Interval::TwoSided(lo, 1.0)),
        Confidence::LowerOneSided(_) => Ok(Interval::TwoSided(0.0, hi)),
    }
}
// structure: which calls are made with which arguments, error variants, kind -> shape, ranks are the capped
// floors of the Wilson bounds (the floor expression is the same DAG in code and harness: no float search)
fn rank_structure(n: usize, q: f64, conf: Confidence) {
    let r = raw_qstats(n).ci(conf, q);
    let valid_q = q > 0.0 && q < 1.0;
    let kq = (q * n as f64).round() as usize; // rank of the sample quantile
    match r {
        Ok(i) => {
            assert!(valid_q && n >= 4, "C03:rank:ok-outside-domain");
            assert!(W_N.load(SeqCst) == n && W_K.load(SeqCst) == kq, "C03:rank:wilson-arguments");
            let lo = f64::from_bits(W_LO.load(SeqCst));
            let hi = f64::from_bits(W_HI.load(SeqCst));
            let want_l = ((lo * n as f64).floor() as usize).min(n - 1);
            let want_h = ((hi * n as f64).floor() as usize).min(n - 1);
            match (conf, i) {
                (Confidence::TwoSided(_), Interval::TwoSided(l, h)) => assert!(l == want_l && h == want_h, "C03:rank:floor-of-wilson-bounds"),
                (Confidence::UpperOneSided(_), Interval::UpperOneSided(l)) => assert!(l == want_l, "C03:rank:floor-of-wilson-bounds:upper"),
                (Confidence::LowerOneSided(_), Interval::LowerOneSided(h)) => assert!(h == want_h, "C03:rank:floor-of-wilson-bounds:lower"),
                _ => assert!(false, "C03:rank:kind-mismatch"),
            }
        }
        Err(CIError::InvalidQuantile(x)) => assert!(!valid_q && (x.to_bits() == q.to_bits() || x.is_nan()), "C03:rank:invalid-quantile-variant"),
        Err(CIError::TooFewSamples(m)) => assert!(valid_q && n < 4 && m == n, "C03:rank:too-few-samples-variant"),
        Err(CIError::TooFewSuccesses(..)) => assert!(valid_q && n >= 4 && kq < 2, "C03:rank:too-few-successes-variant"),
        Err(CIError::TooFewFailures(..)) => assert!(valid_q && n >= 4 && kq >= 2 && n - kq.min(n) < 2, "C03:rank:too-few-failures-variant"),
        Err(CIError::IntervalError(_)) => assert!(valid_q && n >= 4, "C03:rank:interval-error-variant"),
        Err(_) => assert!(false, "C03:rank:undocumented-error-variant"),
    }
}
// bracket: ranks in range, lower <= upper, and they bracket round(q*n) to within one position
fn rank_bracket(n: usize, q: f64, conf: Confidence) {
    let kq = (q * n as f64).round() as usize;
    if let Ok(i) = raw_qstats(n).ci(conf, q) {
        match i {
            Interval::TwoSided(l, h) => {
                assert!(l <= h && h < n, "C03:rank:in-range");
                assert!(l <= kq && kq <= h + 1, "C03:rank:brackets-sample-quantile");
            }
            Interval::UpperOneSided(l) => assert!(l < n && l <= kq, "C03:rank:upper-in-range-and-below-quantile"),
            Interval::LowerOneSided(h) => assert!(h < n && kq <= h + 1, "C03:rank:lower-in-range-and-above-quantile"),
        }
    }
}

// structure: symbolic n <= 64 (thorough tier), every double q (NaN included), symbolic Wilson bounds
#[kani::proof]
#[kani::stub(proportion::ci_wilson, wilson_stub)]
fn t03_rank_structure_n_le64() {
    let n: usize = kani::any();
    kani::assume(n <= 64);
    rank_structure(n, kani::any(), any_conf());
}
// structure: symbolic n <= 12 (quick tier)
#[kani::proof]
#[kani::stub(proportion::ci_wilson, wilson_stub)]
fn c03_rank_structure_n_le12() {
    let n: usize = kani::any();
    kani::assume(n <= 12);
    let q: f64 = kani::any();
    let conf = any_conf();
    kani::cover!(n >= 4 && q > 0.0 && q < 1.0, "admissible");
    kani::cover!(q.is_nan(), "NaN quantile");
    kani::cover!(n == 3 && q > 0.0 && q < 1.0, "too few samples");
    rank_structure(n, q, conf);
}

// bracket: symbolic n <= 64 (thorough tier)
#[kani::proof]
#[kani::stub(proportion::ci_wilson, wilson_stub)]
fn t03_rank_bracket_n_le64() {
    let n: usize = kani::any();
    kani::assume(n <= 64);
    rank_bracket(n, kani::any(), any_conf());
}
// bracket: symbolic n <= 12 (quick tier)
#[kani::proof]
#[kani::stub(proportion::ci_wilson, wilson_stub)]
fn c03_rank_bracket_n_le12() {
    let n: usize = kani::any();
    kani::assume(n <= 12);
    let q: f64 = kani::any();
    kani::cover!(n >= 4 && q > 0.0 && q < 1.0, "admissible");
    rank_bracket(n, q, any_conf());
}
// bracket: concretised n (multiplication by a constant)
fn bracket_at<const N: usize>() {
    let q: f64 = kani::any();
    rank_bracket(N, q, any_conf());
}
fn structure_at<const N: usize>() {
    let q: f64 = kani::any();
    rank_structure(N, q, any_conf());
}
macro_rules! structure_grid {
    ($($name:ident : $n:expr),* $(,)?) => { $(
        #[kani::proof]
        #[kani::stub(proportion::ci_wilson, wilson_stub)]
        fn $name() { structure_at::<$n>(); }
    )* };
}
structure_grid!(c03_rank_structure_n3: 3, c03_rank_structure_n15: 15, c03_rank_structure_n100: 100, c03_rank_structure_n4097: 4097);
structure_grid!(t03_rank_structure_n1000: 1000, t03_rank_structure_n8193: 8193, t03_rank_structure_n65536: 65536);
macro_rules! rank_grid {
    ($($name:ident : $n:expr),* $(,)?) => { $(
        #[kani::proof]
        #[kani::stub(proportion::ci_wilson, wilson_stub)]
        fn $name() { bracket_at::<$n>(); }
    )* };
}
rank_grid!(c03_rank_bracket_n15: 15, c03_rank_bracket_n100: 100, c03_rank_bracket_n4097: 4097);
rank_grid!(t03_rank_bracket_n1000: 1000, t03_rank_bracket_n10007: 10007, t03_rank_bracket_n65536: 65536);

// Stats::index on its own: floor(p*n) capped at n-1, errors for n = 0 / p outside [0,1]
#[kani::proof]
fn c03_index_small_n() {
    let n: usize = kani::any();
    kani::assume(n <= 64);
    let p: f64 = kani::any();
    match raw_qstats(n).index(p) {
        Ok(i) => {
            assert!(n > 0 && p >= 0.0 && p <= 1.0, "C03:index:ok-outside-domain");
            assert!(i < n && i == ((p * n as f64).floor() as usize).min(n - 1), "C03:index:value");
        }
        Err(CIError::TooFewSamples(m)) => assert!(n == 0 && m == 0, "C03:index:too-few-samples-variant"),
        Err(CIError::InvalidQuantile(_)) => assert!(n > 0 && !(p >= 0.0 && p <= 1.0), "C03:index:invalid-quantile-variant"),
        Err(_) => assert!(false, "C03:index:undocumented-error-variant"),
    }
}

// index-only front end = running Stats
#[kani::proof]
#[kani::stub(proportion::ci_wilson, wilson_stub)]
fn c03_ci_indices_is_stats_ci() {
    let n: usize = kani::any();
    kani::assume(n <= 16);
    let q: f64 = kani::any();
    kani::assume(q == 0.5 || q == 0.25 || q == 2.0 || q.is_nan());
    let conf = any_conf();
    let a = ci_indices(conf, n, q);
    let (lo, hi) = (W_LO.load(SeqCst), W_HI.load(SeqCst));
    // same Wilson bounds for the second call
    let b = Stats::new(n).ci(conf, q);
    kani::assume(W_LO.load(SeqCst) == lo && W_HI.load(SeqCst) == hi);
    let same = match (&a, &b) {
        (Ok(x), Ok(y)) => x == y,
        (Err(_), Err(_)) => true,
        _ => false,
    };
    assert!(same, "C03:ci_indices-vs-stats:disagree");
}

// ------------------------------------------------------------------------------------------------ C11
// totality of the element-level entry points with the real ci_indices / Stats::ci (ci_wilson replaced by its
// contract stub; its own totality is c02_wilson_domain_all_usize): any q (NaN, <= 0, >= 1 included), lengths 0..=5
fn entry_points_case<const N: usize>() {
    let data = Prefix::<u8, N> { d: kani::any(), len: N };
    let q: f64 = kani::any();
    let conf = any_conf_practical();
    kani::cover!(q.is_nan(), "NaN quantile");
    kani::cover!(q >= 1.0, "quantile >= 1");
    let valid_q = q > 0.0 && q < 1.0;
    let r = ci_max_size::<u8, _, N>(conf, &data, q);
    match &r {
        Ok(_) => assert!(valid_q && N >= 4, "C11:quantile:ok-outside-domain"),
        Err(CIError::InvalidQuantile(_)) => assert!(!valid_q, "C11:quantile:invalid-quantile-variant"),
        Err(CIError::TooFewSamples(_)) => assert!(valid_q && N < 4, "C11:quantile:too-few-samples-variant"),
        Err(CIError::TooFewSuccesses(..)) | Err(CIError::TooFewFailures(..)) => assert!(valid_q && N >= 4, "C11:quantile:too-few-variant"),
        Err(CIError::IntervalError(_)) | Err(CIError::IndexError(..)) => assert!(valid_q && N >= 4, "C11:quantile:interval-error-variant"),
        Err(_) => assert!(false, "C11:quantile:undocumented-error-variant"),
    }
}
macro_rules! entry_grid {
    ($($name:ident : $n:expr),* $(,)?) => { $(
        #[kani::proof]
        #[kani::unwind(7)]
        #[kani::stub(proportion::ci_wilson, wilson_stub)]
        fn $name() { entry_points_case::<$n>(); }
    )* };
}
entry_grid!(c11_quantile_entry_points_n0: 0, c11_quantile_entry_points_n1: 1, c11_quantile_entry_points_n3: 3, c11_quantile_entry_points_n4: 4, c11_quantile_entry_points_n5: 5);

// the pre-sorted and heap entry points on sorted data of length 4: same totality
#[kani::proof]
#[kani::unwind(7)]
#[kani::stub(proportion::ci_wilson, wilson_stub)]
fn c11_quantile_sorted_and_vec_total() {
    let d: [u8; 4] = kani::any();
    kani::assume(d[0] <= d[1] && d[1] <= d[2] && d[2] <= d[3]);
    let q: f64 = kani::any();
    let conf = any_conf_practical();
    let valid_q = q > 0.0 && q < 1.0;
    let r = ci_sorted_unchecked(conf, &d[..], q);
    match &r {
        Ok(_) => assert!(valid_q, "C11:quantile:sorted:ok-outside-domain"),
        Err(CIError::InvalidQuantile(_)) => assert!(!valid_q, "C11:quantile:sorted:invalid-quantile-variant"),
        Err(_) => assert!(valid_q, "C11:quantile:sorted:other-error-for-invalid-quantile"),
    }
    let data = Prefix::<u8, 4> { d, len: 4 };
    let r2 = ci::<u8, _>(conf, &data, q);
    assert!(r2.is_ok() == r.is_ok(), "C11:quantile:vec-vs-sorted:disagree");
}

// Stats::ci and Stats::index for every population (usize), every q: no panic
#[kani::proof]
#[kani::stub(<Normal as ContinuousCDF<f64, f64>>::inverse_cdf, icdf_n_stub)]
fn c11_quantile_stats_total_all_usize() {
    let n: usize = kani::any();
    let q: f64 = kani::any();
    let conf = any_conf_practical();
    if let Ok(i) = raw_qstats(n).ci(conf, q) {
        let ok = match i {
            Interval::TwoSided(l, h) => l <= h && h < n,
            Interval::UpperOneSided(l) => l < n,
            Interval::LowerOneSided(h) => h < n,
        };
        assert!(ok, "C11:quantile:stats-ci:index-out-of-range");
    }
    if let Ok(i) = raw_qstats(n).index(q) {
        assert!(i < n, "C11:quantile:index:out-of-range");
    }
}

// ------------------------------------------------------------------------------------------------ C09
#[kani::proof]
fn c09_quantile_stats_merge() {
    let (n1, n2): (usize, usize) = (kani::any(), kani::any());
    kani::assume(n1 <= usize::MAX / 2 && n2 <= usize::MAX / 2);
    let (a, b) = (raw_qstats(n1), raw_qstats(n2));
    let c = a + b;
    assert!(c == raw_qstats(n1 + n2), "C09:quantile:add-componentwise");
    let mut d = a;
    d += b;
    assert!(d == c && b + a == c, "C09:quantile:add-assign-agrees");
    assert!(a + Stats::default() == a && Stats::default() + a == a, "C09:quantile:default-neutral");
    assert!(Stats::new(n1) == a && a.clone() == a, "C09:quantile:new-copy");
}

// ------------------------------------------------------------------------------------------------ larger samples
// Beyond 5 symbolic elements the sort does not finish in SAT. A sample of 20 elements is covered with CONCRETE scrambled data
// (distinct values, so order statistics are known in closed form) and SYMBOLIC ranks / kinds handed over by the
// ci_indices stub: every rank pair l <= h < 20 and every kind is decided; the data values themselves are fixed.
// (48 concrete elements exceeded 900 s: the standard library switches sorting strategy above 20 elements.)
const SCRAMBLED: [u16; 48] = [13, 7932, 15851, 23770, 31689, 39608, 47527, 55446, 63365, 5763, 13682, 21601, 29520, 37439, 45358, 53277, 61196, 3594, 11513, 19432, 27351, 35270, 43189, 51108, 59027, 1425, 9344, 17263, 25182, 33101, 41020, 48939, 56858, 64777, 7175, 15094, 23013, 30932, 38851, 46770, 54689, 62608, 5006, 12925, 20844, 28763, 36682, 44601];
fn rank_of<const N: usize>(d: &[u16; N], v: u16) -> usize {
    let mut r = 0;
    let mut j = 0;
    while j < N {
        if d[j] < v {
            r += 1;
        }
        j += 1;
    }
    r
}
fn large_case<const N: usize>(use_vec: bool) {
    let mut d = [0u16; N];
    let mut i = 0;
    while i < N {
        d[i] = SCRAMBLED[i];
        i += 1;
    }
    let data = Prefix::<u16, N> { d, len: N };
    let (l, h, err) = choose_indices(N);
    kani::assume(!err);
    let conf = any_conf();
    let r = if use_vec { ci::<u16, _>(conf, &data, 0.5) } else { ci_max_size::<u16, _, N>(conf, &data, 0.5) };
    let ok = match (&conf, &r) {
        (Confidence::TwoSided(_), Ok(Interval::TwoSided(a, b))) => rank_of(&data.d, *a) == l && rank_of(&data.d, *b) == h,
        (Confidence::UpperOneSided(_), Ok(Interval::UpperOneSided(a))) => rank_of(&data.d, *a) == l,
        (Confidence::LowerOneSided(_), Ok(Interval::LowerOneSided(b))) => rank_of(&data.d, *b) == h,
        _ => false,
    };
    assert!(ok, "C03:large-sample:order-statistics");
}
#[kani::proof]
#[kani::unwind(22)]
#[kani::stub(ci_indices, ci_indices_stub)]
fn c03_large_sample_max_size_n20() {
    large_case::<20>(false);
}
#[kani::proof]
#[kani::unwind(22)]
#[kani::stub(ci_indices, ci_indices_stub)]
fn c03_large_sample_vec_n20() {
    large_case::<20>(true);
}
