// Child module of `utils`: direct construction / inspection of KahanSum registers (private fields), and the
// C09 harnesses on the register itself.
#![allow(dead_code)]
use super::*;

pub(crate) fn raw_kahan<T: Float>(sum: T, compensation: T) -> KahanSum<T> {
    KahanSum { sum, compensation }
}
pub(crate) fn kahan_parts<T: Float>(k: &KahanSum<T>) -> (T, T) {
    (k.sum, k.compensation)
}
pub(crate) fn any_kahan_f64() -> KahanSum<f64> {
    KahanSum { sum: kani::any(), compensation: kani::any() }
}
pub(crate) fn any_kahan_f32() -> KahanSum<f32> {
    KahanSum { sum: kani::any(), compensation: kani::any() }
}
pub(crate) fn same_bits_f64(a: &KahanSum<f64>, b: &KahanSum<f64>) -> bool {
    a.sum.to_bits() == b.sum.to_bits() && a.compensation.to_bits() == b.compensation.to_bits()
}
pub(crate) fn same_bits_f32(a: &KahanSum<f32>, b: &KahanSum<f32>) -> bool {
    a.sum.to_bits() == b.sum.to_bits() && a.compensation.to_bits() == b.compensation.to_bits()
}

// C09: queries never modify a register; copies are bitwise copies; new/default/from have zero compensation
#[kani::proof]
fn c09_kahan_queries_pure_f64() {
    let k = any_kahan_f64();
    let before = k;
    let _v = k.value();
    let _e = k == before;
    assert!(same_bits_f64(&k, &before), "C09:kahan:query-modifies-state");
    let c = k.clone();
    assert!(same_bits_f64(&c, &k), "C09:kahan:clone-bitwise");
    let x: f64 = kani::any();
    let n = KahanSum::new(x);
    assert!(n.sum.to_bits() == x.to_bits() && n.compensation.to_bits() == 0f64.to_bits(), "C09:kahan:new");
    let d = KahanSum::<f64>::default();
    assert!(d.sum.to_bits() == 0f64.to_bits() && d.compensation.to_bits() == 0f64.to_bits(), "C09:kahan:default");
    let f: KahanSum<f64> = x.into();
    assert!(same_bits_f64(&f, &n), "C09:kahan:from");
}
