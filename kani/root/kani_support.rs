// Shared support for the cfg(kani) harness modules: environment stubs (each is part of the claim and is
// listed in the evidence) and generators.
#![allow(dead_code)]
use crate::*;
use core::sync::atomic::{AtomicU64, AtomicUsize, Ordering::SeqCst};
use statrs::distribution::{Normal, StudentsT};

// ---- quantile oracles at the statrs trait-impl boundary. Contract of a true quantile function of a
// distribution symmetric about 0: sign(c) = sign(p - 1/2); finite for p in (0,1). Magnitudes are bounded by
// stated constants: |z| <= 40 covers every double p in (0,1) for the normal; |t| <= 1e300 for Student-t.
pub fn icdf_t_stub(_d: &StudentsT, p: f64) -> f64 {
    let c: f64 = kani::any();
    kani::assume(c.is_finite() && c >= -1e300 && c <= 1e300);
    kani::assume(!(p > 0.5) || c >= 0.0);
    kani::assume(!(p < 0.5) || c <= 0.0);
    kani::assume(!(p == 0.5) || c == 0.0);
    T_CALLS.fetch_add(1, SeqCst);
    T_LAST_P.store(p.to_bits(), SeqCst);
    c
}
pub fn icdf_n_stub(_d: &Normal, p: f64) -> f64 {
    let c: f64 = kani::any();
    kani::assume(c.is_finite() && c >= -40.0 && c <= 40.0);
    kani::assume(!(p > 0.5) || c >= 0.0);
    kani::assume(!(p < 0.5) || c <= 0.0);
    kani::assume(!(p == 0.5) || c == 0.0);
    N_CALLS.fetch_add(1, SeqCst);
    N_LAST_P.store(p.to_bits(), SeqCst);
    c
}
pub static T_CALLS: AtomicUsize = AtomicUsize::new(0);
pub static N_CALLS: AtomicUsize = AtomicUsize::new(0);
pub static T_LAST_P: AtomicU64 = AtomicU64::new(0);
pub static N_LAST_P: AtomicU64 = AtomicU64::new(0);

// ---- ln / exp contract stubs (Kani's built-in models are over-approximations: exp(ln x) may be NaN).
// ln: finite x > 0 -> finite; +inf -> +inf; 0 -> -inf; negative or NaN -> NaN.
pub fn ln_stub_f64(x: f64) -> f64 {
    if x.is_nan() || x < 0.0 {
        return f64::NAN;
    }
    if x == 0.0 {
        return f64::NEG_INFINITY;
    }
    if x == f64::INFINITY {
        return f64::INFINITY;
    }
    let r: f64 = kani::any();
    kani::assume(r.is_finite() && r >= -746.0 && r <= 710.0);
    kani::assume((x >= 1.0) == (r >= 0.0));
    r
}
// exp: NaN -> NaN; otherwise a value in [0, +inf], 1 at 0, >= 1 iff x >= 0
pub fn exp_stub_f64(x: f64) -> f64 {
    if x.is_nan() {
        return f64::NAN;
    }
    if x == f64::NEG_INFINITY {
        return 0.0;
    }
    if x == f64::INFINITY {
        return f64::INFINITY;
    }
    let r: f64 = kani::any();
    kani::assume(!r.is_nan() && r >= 0.0);
    kani::assume((x >= 0.0) == (r >= 1.0));
    r
}

// ---- generators
pub fn any_conf() -> Confidence {
    let l: f64 = kani::any();
    // every level except the outermost 1e-12 tails (where statrs' real inverse CDF, used by native replays, needs very long)
    kani::assume(l >= 1e-12 && l <= 1.0 - 1e-12);
    match kani::any::<u8>() % 3 {
        0 => Confidence::TwoSided(l),
        1 => Confidence::UpperOneSided(l),
        _ => Confidence::LowerOneSided(l),
    }
}
/// confidence levels in the range the totality property quantifies over
pub fn any_conf_practical() -> Confidence {
    let l: f64 = kani::any();
    kani::assume(l >= 0.001 && l <= 0.9999);
    match kani::any::<u8>() % 3 {
        0 => Confidence::TwoSided(l),
        1 => Confidence::UpperOneSided(l),
        _ => Confidence::LowerOneSided(l),
    }
}
pub fn conf_kind(c: &Confidence) -> u8 {
    match c {
        Confidence::TwoSided(_) => 0,
        Confidence::UpperOneSided(_) => 1,
        Confidence::LowerOneSided(_) => 2,
    }
}
pub fn iv_kind<T: PartialOrd>(i: &Interval<T>) -> u8 {
    match i {
        Interval::TwoSided(..) => 0,
        Interval::UpperOneSided(_) => 1,
        Interval::LowerOneSided(_) => 2,
    }
}
/// C11's requirement on a returned interval: no NaN bound, lower <= upper
pub fn well_formed_f64(i: &Interval<f64>) -> bool {
    match i {
        Interval::TwoSided(a, b) => !a.is_nan() && !b.is_nan() && a <= b,
        Interval::UpperOneSided(a) => !a.is_nan(),
        Interval::LowerOneSided(b) => !b.is_nan(),
    }
}
pub fn well_formed_f32(i: &Interval<f32>) -> bool {
    match i {
        Interval::TwoSided(a, b) => !a.is_nan() && !b.is_nan() && a <= b,
        Interval::UpperOneSided(a) => !a.is_nan(),
        Interval::LowerOneSided(b) => !b.is_nan(),
    }
}

/// A sized container holding the first `len` elements of a fixed array: symbolic-length data without a heap.
pub struct Prefix<T, const N: usize> {
    pub d: [T; N],
    pub len: usize,
}
impl<'a, T, const N: usize> IntoIterator for &'a Prefix<T, N> {
    type Item = &'a T;
    type IntoIter = PIter<'a, T>;
    fn into_iter(self) -> Self::IntoIter {
        PIter { it: self.d[..self.len].iter() }
    }
}
// The iterator of a Prefix. By default it reports the exact size hint of a slice. After `loose_hints()` the harness
// covers, in the same query, a user collection whose iterator reports any *legal* inexact hint (lower bound 0 or exact,
// upper bound absent or too large by an arbitrary amount): feeding code must count what the iterator yields, not what it
// announces (seeded change C02-G took the population from the upper size hint).
pub static LOOSE_HINT: AtomicUsize = AtomicUsize::new(0);
pub fn loose_hints() {
    LOOSE_HINT.store(kani::any::<bool>() as usize, SeqCst);
}
pub struct PIter<'a, T> {
    it: core::slice::Iter<'a, T>,
}
impl<'a, T> Iterator for PIter<'a, T> {
    type Item = &'a T;
    fn next(&mut self) -> Option<&'a T> {
        self.it.next()
    }
    fn size_hint(&self) -> (usize, Option<usize>) {
        if LOOSE_HINT.load(SeqCst) == 0 {
            return self.it.size_hint();
        }
        let rem = self.it.len();
        let extra: usize = kani::any();
        kani::assume(extra <= 1 << 20);
        let lo = if kani::any() { 0 } else { rem };
        let hi = if kani::any() { None } else { Some(rem + extra) };
        (lo, hi)
    }
}
pub fn any_prefix_f64<const N: usize>() -> Prefix<f64, N> {
    loose_hints();
    let d: [f64; N] = kani::any();
    let len: usize = kani::any();
    kani::assume(len <= N);
    Prefix { d, len }
}
pub fn any_prefix_f32<const N: usize>() -> Prefix<f32, N> {
    loose_hints();
    let d: [f32; N] = kani::any();
    let len: usize = kani::any();
    kani::assume(len <= N);
    Prefix { d, len }
}
