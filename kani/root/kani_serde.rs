// requires-feature: serde
// C20 — serialized state round-trips losslessly. Engine K under `--features serde`: the *real* derive output of
// every public state type runs against an in-harness binary Serializer/Deserializer pair over a fixed [u64; 24]
// buffer; the restored value must have bitwise-equal fields (read through the child-module accessors).
#![allow(dead_code)]
use crate::*;
use serde::{de, ser, Deserialize, Serialize};

#[derive(Debug)]
struct Er;
impl core::fmt::Display for Er { fn fmt(&self, _f: &mut core::fmt::Formatter<'_>) -> core::fmt::Result { Ok(()) } }
impl std::error::Error for Er {}
impl ser::Error for Er { fn custom<T: core::fmt::Display>(_m: T) -> Self { Er } }
impl de::Error for Er { fn custom<T: core::fmt::Display>(_m: T) -> Self { Er } }

struct W { b: [u64; 24], n: usize }
impl W { fn put(&mut self, v: u64) -> Result<(), Er> { if self.n >= 24 { return Err(Er); } self.b[self.n] = v; self.n += 1; Ok(()) } }

macro_rules! unsupported { ($($f:ident($($t:ty),*) -> $r:ty;)*) => { $( fn $f(self $(, _: $t)*) -> Result<$r, Er> { Err(Er) } )* } }

impl<'a> ser::Serializer for &'a mut W {
    type Ok = (); type Error = Er;
    type SerializeSeq = ser::Impossible<(), Er>; type SerializeTuple = ser::Impossible<(), Er>;
    type SerializeTupleStruct = ser::Impossible<(), Er>; type SerializeTupleVariant = Self;
    type SerializeMap = ser::Impossible<(), Er>; type SerializeStruct = Self; type SerializeStructVariant = ser::Impossible<(), Er>;
    fn serialize_f64(self, v: f64) -> Result<(), Er> { self.put(v.to_bits()) }
    fn serialize_f32(self, v: f32) -> Result<(), Er> { self.put(v.to_bits() as u64) }
    fn serialize_u64(self, v: u64) -> Result<(), Er> { self.put(v) }
    fn serialize_newtype_variant<T: ?Sized + Serialize>(self, _n: &'static str, idx: u32, _v: &'static str, value: &T) -> Result<(), Er> { self.put(idx as u64)?; value.serialize(self) }
    fn serialize_tuple_variant(self, _n: &'static str, idx: u32, _v: &'static str, _len: usize) -> Result<Self, Er> { self.put(idx as u64)?; Ok(self) }
    fn serialize_struct(self, _n: &'static str, _len: usize) -> Result<Self, Er> { Ok(self) }
    unsupported! {
        serialize_bool(bool) -> (); serialize_i8(i8) -> (); serialize_i16(i16) -> (); serialize_i32(i32) -> (); serialize_i64(i64) -> ();
        serialize_u8(u8) -> (); serialize_u16(u16) -> (); serialize_u32(u32) -> (); serialize_char(char) -> (); serialize_str(&str) -> ();
        serialize_bytes(&[u8]) -> (); serialize_none() -> (); serialize_unit() -> (); serialize_unit_struct(&'static str) -> ();
        serialize_unit_variant(&'static str, u32, &'static str) -> ();
        serialize_seq(Option<usize>) -> Self::SerializeSeq; serialize_tuple(usize) -> Self::SerializeTuple;
        serialize_tuple_struct(&'static str, usize) -> Self::SerializeTupleStruct; serialize_map(Option<usize>) -> Self::SerializeMap;
        serialize_struct_variant(&'static str, u32, &'static str, usize) -> Self::SerializeStructVariant;
    }
    fn serialize_some<T: ?Sized + Serialize>(self, _v: &T) -> Result<(), Er> { Err(Er) }
    fn serialize_newtype_struct<T: ?Sized + Serialize>(self, _n: &'static str, _v: &T) -> Result<(), Er> { Err(Er) }
}
impl<'a> ser::SerializeStruct for &'a mut W { type Ok = (); type Error = Er;
    fn serialize_field<T: ?Sized + Serialize>(&mut self, _k: &'static str, v: &T) -> Result<(), Er> { v.serialize(&mut **self) }
    fn end(self) -> Result<(), Er> { Ok(()) } }
impl<'a> ser::SerializeTupleVariant for &'a mut W { type Ok = (); type Error = Er;
    fn serialize_field<T: ?Sized + Serialize>(&mut self, v: &T) -> Result<(), Er> { v.serialize(&mut **self) }
    fn end(self) -> Result<(), Er> { Ok(()) } }

struct R<'b> { b: &'b [u64; 24], i: usize }
impl<'b> R<'b> { fn get(&mut self) -> Result<u64, Er> { if self.i >= 24 { return Err(Er); } let v = self.b[self.i]; self.i += 1; Ok(v) } }
impl<'de, 'a, 'b> de::Deserializer<'de> for &'a mut R<'b> {
    type Error = Er;
    fn deserialize_any<V: de::Visitor<'de>>(self, _v: V) -> Result<V::Value, Er> { Err(Er) }
    fn deserialize_f64<V: de::Visitor<'de>>(self, v: V) -> Result<V::Value, Er> { let x = self.get()?; v.visit_f64(f64::from_bits(x)) }
    fn deserialize_f32<V: de::Visitor<'de>>(self, v: V) -> Result<V::Value, Er> { let x = self.get()?; v.visit_f32(f32::from_bits(x as u32)) }
    fn deserialize_u64<V: de::Visitor<'de>>(self, v: V) -> Result<V::Value, Er> { let x = self.get()?; v.visit_u64(x) }
    fn deserialize_struct<V: de::Visitor<'de>>(self, _n: &'static str, f: &'static [&'static str], v: V) -> Result<V::Value, Er> { v.visit_seq(Seq { r: self, left: f.len() }) }
    fn deserialize_enum<V: de::Visitor<'de>>(self, _n: &'static str, _vs: &'static [&'static str], v: V) -> Result<V::Value, Er> { v.visit_enum(En { r: self }) }
    serde::forward_to_deserialize_any! { bool i8 i16 i32 i64 i128 u8 u16 u32 u128 char str string bytes byte_buf option unit unit_struct newtype_struct seq tuple tuple_struct map identifier ignored_any }
}
struct Seq<'a, 'b> { r: &'a mut R<'b>, left: usize }
impl<'de, 'a, 'b> de::SeqAccess<'de> for Seq<'a, 'b> { type Error = Er;
    fn next_element_seed<T: de::DeserializeSeed<'de>>(&mut self, seed: T) -> Result<Option<T::Value>, Er> { if self.left == 0 { return Ok(None); } self.left -= 1; seed.deserialize(&mut *self.r).map(Some) } }
struct En<'a, 'b> { r: &'a mut R<'b> }
impl<'de, 'a, 'b> de::EnumAccess<'de> for En<'a, 'b> { type Error = Er; type Variant = Self;
    fn variant_seed<T: de::DeserializeSeed<'de>>(self, seed: T) -> Result<(T::Value, Self), Er> {
        use de::IntoDeserializer; let idx = self.r.get()? as u32; let v = seed.deserialize(idx.into_deserializer())?; Ok((v, self)) } }
impl<'de, 'a, 'b> de::VariantAccess<'de> for En<'a, 'b> { type Error = Er;
    fn unit_variant(self) -> Result<(), Er> { Err(Er) }
    fn newtype_variant_seed<T: de::DeserializeSeed<'de>>(self, seed: T) -> Result<T::Value, Er> { seed.deserialize(self.r) }
    fn tuple_variant<V: de::Visitor<'de>>(self, len: usize, v: V) -> Result<V::Value, Er> { v.visit_seq(Seq { r: self.r, left: len }) }
    fn struct_variant<V: de::Visitor<'de>>(self, _f: &'static [&'static str], _v: V) -> Result<V::Value, Er> { Err(Er) } }

fn roundtrip<T: Serialize + for<'d> Deserialize<'d>>(x: &T) -> (T, [u64; 24], usize) {
    let mut w = W { b: [0; 24], n: 0 };
    x.serialize(&mut w).unwrap();
    let mut r = R { b: &w.b, i: 0 };
    let y = T::deserialize(&mut r).unwrap();
    (y, w.b, w.n)
}


use crate::comparison::kani_comparison::*;
use crate::mean::kani_mean::*;
use crate::proportion::kani_proportion::raw_stats;

#[kani::proof]
#[kani::unwind(26)]
fn c20_confidence_roundtrip() {
    let l: f64 = kani::any();
    let c = match kani::any::<u8>() % 3 {
        0 => Confidence::TwoSided(l),
        1 => Confidence::UpperOneSided(l),
        _ => Confidence::LowerOneSided(l),
    };
    let (d, _, n) = roundtrip(&c);
    assert!(n == 2, "C20:confidence:stream-length");
    let same = match (c, d) {
        (Confidence::TwoSided(a), Confidence::TwoSided(b)) | (Confidence::UpperOneSided(a), Confidence::UpperOneSided(b)) | (Confidence::LowerOneSided(a), Confidence::LowerOneSided(b)) => a.to_bits() == b.to_bits(),
        _ => false,
    };
    assert!(same, "C20:confidence:roundtrip");
}

#[kani::proof]
#[kani::unwind(26)]
fn c20_interval_roundtrip() {
    let (a, b): (f64, f64) = (kani::any(), kani::any());
    let i = match kani::any::<u8>() % 3 {
        0 => Interval::TwoSided(a, b),
        1 => Interval::UpperOneSided(a),
        _ => Interval::LowerOneSided(b),
    };
    let (j, _, _) = roundtrip(&i);
    let same = match (i, j) {
        (Interval::TwoSided(a, b), Interval::TwoSided(x, y)) => a.to_bits() == x.to_bits() && b.to_bits() == y.to_bits(),
        (Interval::UpperOneSided(a), Interval::UpperOneSided(x)) | (Interval::LowerOneSided(a), Interval::LowerOneSided(x)) => a.to_bits() == x.to_bits(),
        _ => false,
    };
    assert!(same, "C20:interval:roundtrip");
}

#[kani::proof]
#[kani::unwind(26)]
fn c20_arithmetic_roundtrip_f64() {
    let st = any_arith_f64();
    let (st2, _, n) = roundtrip(&st);
    kani::cover!(arith_bits_f64(&st).1 != 0, "non-zero compensation");
    assert!(n == 5, "C20:arithmetic:stream-length");
    assert!(arith_bits_f64(&st) == arith_bits_f64(&st2), "C20:arithmetic:roundtrip");
}

#[kani::proof]
#[kani::unwind(26)]
fn c20_arithmetic_roundtrip_f32() {
    let st = any_arith_f32();
    let (st2, _, _) = roundtrip(&st);
    assert!(arith_bits_f32(&st) == arith_bits_f32(&st2), "C20:arithmetic:f32:roundtrip");
}

#[kani::proof]
#[kani::unwind(26)]
fn c20_harmonic_geometric_roundtrip() {
    let a = any_arith_f64();
    let (h2, _, _) = roundtrip(&raw_harmonic_f64(a));
    assert!(arith_bits_f64(&harmonic_inner_f64(&h2)) == arith_bits_f64(&a), "C20:harmonic:roundtrip");
    let (g2, _, _) = roundtrip(&raw_geometric_f64(a));
    assert!(arith_bits_f64(&geometric_inner_f64(&g2)) == arith_bits_f64(&a), "C20:geometric:roundtrip");
}

#[kani::proof]
#[kani::unwind(26)]
fn c20_paired_unpaired_roundtrip() {
    let (a, b) = (any_arith_f64(), any_arith_f64());
    let (p2, _, _) = roundtrip(&raw_paired_f64(a));
    assert!(arith_bits_f64(&paired_inner_f64(&p2)) == arith_bits_f64(&a), "C20:paired:roundtrip");
    let (u2, _, n) = roundtrip(&raw_unpaired_f64(a, b));
    assert!(n == 10, "C20:unpaired:stream-length");
    assert!(arith_bits_f64(u2.stats_a()) == arith_bits_f64(&a) && arith_bits_f64(u2.stats_b()) == arith_bits_f64(&b), "C20:unpaired:roundtrip");
}

#[kani::proof]
#[kani::unwind(26)]
fn c20_proportion_stats_roundtrip() {
    let (n, k): (usize, usize) = (kani::any(), kani::any());
    let s = raw_stats(n, k);
    let (s2, _, _) = roundtrip(&s);
    assert!(s2.population() == n && s2.successes() == k && s2 == s, "C20:proportion:roundtrip");
}
