// Child module of `stats`: which statrs method receives which arguments, on the compiled code (C06 reduction, C01/C10 support).
#![allow(dead_code)]
use super::{interval_bounds, t_value, z_value};
use crate::kani_support::*;
use crate::Confidence;
use statrs::distribution::{ContinuousCDF, Normal, StudentsT};
use core::sync::atomic::{AtomicU64, AtomicUsize, Ordering::SeqCst};

static T_DOF: AtomicU64 = AtomicU64::new(0);
static T_C: AtomicU64 = AtomicU64::new(0);
static N_C: AtomicU64 = AtomicU64::new(0);
fn t_rec(d: &StudentsT, p: f64) -> f64 {
    T_DOF.store(d.freedom().to_bits(), SeqCst);
    let c = icdf_t_stub(d, p);
    T_C.store(c.to_bits(), SeqCst);
    c
}
fn n_rec(d: &Normal, p: f64) -> f64 {
    let c = icdf_n_stub(d, p);
    N_C.store(c.to_bits(), SeqCst);
    c
}

// interval_bounds: Student-t at (quantile(conf), dof) strictly below the population limit, standard normal from it on;
// the span is critical value * standard error, WITHOUT absolute value, placed symmetrically around the mean
#[kani::proof]
#[kani::stub(<StudentsT as ContinuousCDF<f64, f64>>::inverse_cdf, t_rec)]
#[kani::stub(<Normal as ContinuousCDF<f64, f64>>::inverse_cdf, n_rec)]
fn c06_interval_bounds_uses_the_documented_quantile() {
    let conf = any_conf();
    let dof: f64 = kani::any();
    // (range chosen so that a native replay, which runs the REAL statrs code, terminates quickly)
    kani::assume(dof >= 1.0 && dof <= 1e12);
    let mean: f64 = kani::any();
    let sem: f64 = kani::any();
    kani::assume(mean == 0.0 && (sem == 1.0 || sem == 2.0)); // moves and one exact multiplication only
    kani::cover!(dof < 100_000.0, "t branch");
    kani::cover!(dof >= 100_000.0, "z branch");
    kani::cover!(conf.level() < 0.5 && conf_kind(&conf) != 0, "one-sided level below one half");
    let (lo, hi) = interval_bounds(conf, mean, sem, dof);
    let q = match conf {
        Confidence::TwoSided(l) => 1.0 - (1.0 - l) / 2.0,
        Confidence::UpperOneSided(l) | Confidence::LowerOneSided(l) => l,
    };
    let (tc, nc) = (T_CALLS.load(SeqCst), N_CALLS.load(SeqCst));
    let c = if dof < 100_000.0 {
        assert!(tc == 1 && nc == 0, "C06:interval_bounds:t-below-limit");
        assert!(T_LAST_P.load(SeqCst) == q.to_bits(), "C06:interval_bounds:t-quantile-argument");
        assert!(T_DOF.load(SeqCst) == dof.to_bits(), "C06:interval_bounds:t-degrees-of-freedom");
        f64::from_bits(T_C.load(SeqCst))
    } else {
        assert!(tc == 0 && nc == 1, "C06:interval_bounds:z-from-limit");
        assert!(N_LAST_P.load(SeqCst) == q.to_bits(), "C06:interval_bounds:z-quantile-argument");
        f64::from_bits(N_C.load(SeqCst))
    };
    // mean = 0, sem in {1, 2}: span = c*sem is exact, bounds are -/+ span
    let span = if sem == 1.0 { c } else { c + c };
    assert!(lo == -span && hi == span, "C06:interval_bounds:span-is-signed-critical-value-times-sem");
}

#[kani::proof]
#[kani::stub(<StudentsT as ContinuousCDF<f64, f64>>::inverse_cdf, t_rec)]
#[kani::stub(<Normal as ContinuousCDF<f64, f64>>::inverse_cdf, n_rec)]
fn c06_t_and_z_value_arguments() {
    let conf = any_conf();
    let dof: f64 = kani::any();
    // (range chosen so that a native replay, which runs the REAL statrs code, terminates quickly)
    kani::assume(dof >= 1.0 && dof <= 1e12);
    let q = match conf {
        Confidence::TwoSided(l) => 1.0 - (1.0 - l) / 2.0,
        Confidence::UpperOneSided(l) | Confidence::LowerOneSided(l) => l,
    };
    let t = t_value(conf, dof);
    assert!(T_CALLS.load(SeqCst) == 1 && T_LAST_P.load(SeqCst) == q.to_bits() && T_DOF.load(SeqCst) == dof.to_bits(), "C06:t_value:arguments");
    assert!(t.to_bits() == T_C.load(SeqCst), "C06:t_value:returns-the-quantile-unchanged");
    let z = z_value(conf);
    assert!(N_CALLS.load(SeqCst) == 1 && N_LAST_P.load(SeqCst) == q.to_bits(), "C06:z_value:arguments");
    assert!(z.to_bits() == N_C.load(SeqCst), "C06:z_value:returns-the-quantile-unchanged");
    assert!(conf.quantile().to_bits() == q.to_bits(), "C06:quantile:formula");
}

// every call consults the oracle afresh with ITS OWN confidence: results cannot depend on the call history
#[kani::proof]
#[kani::stub(<StudentsT as ContinuousCDF<f64, f64>>::inverse_cdf, t_rec)]
#[kani::stub(<Normal as ContinuousCDF<f64, f64>>::inverse_cdf, n_rec)]
fn c06_critical_value_is_history_independent() {
    let c1 = any_conf();
    let c2 = any_conf();
    kani::cover!(c1.level() == c2.level() && conf_kind(&c1) != conf_kind(&c2), "same level, different kinds");
    let _ = z_value(c1);
    let _ = z_value(c2);
    assert!(N_CALLS.load(SeqCst) == 2 && N_LAST_P.load(SeqCst) == c2.quantile().to_bits(), "C06:z_value:history-dependent");
    let _ = t_value(c1, 5.0);
    let _ = t_value(c2, 7.0);
    assert!(T_CALLS.load(SeqCst) == 2 && T_LAST_P.load(SeqCst) == c2.quantile().to_bits() && T_DOF.load(SeqCst) == 7f64.to_bits(), "C06:t_value:history-dependent");
}
