import sys, subprocess, time
def gen(eb, sb, N, K, naive=False, merge=None):
    F = '(_ FloatingPoint %d %d)' % (eb, sb)
    W = '(_ FloatingPoint 11 53)'
    L = ['(set-logic QF_FP)']
    zero = '((_ to_fp %d %d) RNE 0.0)' % (eb, sb)
    s, c = zero, zero
    exact = '((_ to_fp 11 53) RNE 0.0)'; ab = exact
    for i in range(N):
        L.append('(declare-const x%d %s)' % (i, F))
        L.append('(assert (not (fp.isNaN x%d)))' % i); L.append('(assert (not (fp.isInfinite x%d)))' % i)
        x = 'x%d' % i
        if naive:
            L.append('(define-fun s%d () %s (fp.add RNE %s %s))' % (i, F, s, x)); s = 's%d' % i
        else:
            L.append('(define-fun y%d () %s (fp.sub RNE %s %s))' % (i, F, x, c))
            L.append('(define-fun t%d () %s (fp.add RNE %s y%d))' % (i, F, s, i))
            L.append('(define-fun c%d () %s (fp.sub RNE (fp.sub RNE t%d %s) y%d))' % (i, F, i, s, i))
            s, c = 't%d' % i, 'c%d' % i
        L.append('(assert (not (fp.isInfinite %s)))' % s)
        exact = '(fp.add RNE %s ((_ to_fp 11 53) RNE %s))' % (exact, x)
        ab = '(fp.add RNE %s (fp.abs ((_ to_fp 11 53) RNE %s)))' % (ab, x)
    val = s if naive else '(fp.add RNE %s %s)' % (s, c)
    L.append('(define-fun val () %s ((_ to_fp 11 53) RNE %s))' % (W, val))
    L.append('(define-fun exact () %s %s)' % (W, exact))
    L.append('(define-fun ab () %s %s)' % (W, ab))
    ku = K * 2.0 ** (-sb)
    L.append('(assert (not (fp.leq (fp.abs (fp.sub RNE val exact)) (fp.mul RNE ((_ to_fp 11 53) RNE %r) ab))))' % ku)
    L.append('(check-sat)')
    return '\n'.join(L)
for (eb, sb, N, K, naive) in [(4,5,4,4,False),(4,5,8,4,False),(4,5,8,4,True),(4,5,12,4,False),(5,11,4,4,False),(5,11,6,4,False),(4,5,8,3,False),(4,5,8,2,False)]:
    open('kq.smt2','w').write(gen(eb,sb,N,K,naive))
    for solver in (['z3-new'], ['cvc5','--lang','smt2']):
        t=time.time()
        try: out = subprocess.run(solver+['kq.smt2'],capture_output=True,text=True,timeout=300).stdout.strip().split('\n')[0]
        except subprocess.TimeoutExpired: out='timeout'
        print('FP(%d,%d) N=%d K=%d naive=%s %-7s %-8s %.1fs' % (eb,sb,N,K,naive,solver[0],out,time.time()-t), flush=True)
