import subprocess, time, sys, itertools, random
from concurrent.futures import ThreadPoolExecutor
sys.argv += ['x']
exec(open('step2.py').read().split("for (A,B,pre,goal,C) in")[0].replace("EB, SB = 5, 11", "EB, SB = %d, %d" % (int(sys.argv[1]), int(sys.argv[2]))))
A, B = int(sys.argv[3]), int(sys.argv[4])
base = gen(A, B, None, 'defect', 2).replace('(get-value (s c x y t c2))', '')
cubes = list(itertools.product(range(2**EB - 1), repeat=3))
random.seed(1); random.shuffle(cubes)
N = int(sys.argv[5])
def one(cu):
    q = base.replace('(check-sat)', ''.join('(assert (= %s_e (_ bv%d %d)))\n' % (v, e, EB) for v, e in zip('scx', cu)) + '(check-sat)')
    t = time.time()
    try: r = subprocess.run(['z3-new', '-in'], input=q, capture_output=True, text=True, timeout=120).stdout.strip().split('\n')[0]
    except subprocess.TimeoutExpired: r = 'timeout'
    return cu, r, time.time() - t
t0 = time.time(); res = {}; worst = 0
with ThreadPoolExecutor(12) as ex:
    for cu, r, dt in ex.map(one, cubes[:N]):
        res[r] = res.get(r, 0) + 1; worst = max(worst, dt)
        if r != 'unsat': print('cube', cu, r, '%.1fs' % dt, flush=True)
print('F(%d,%d) A=%d B=%d: %d cubes of %d: %s wall %.1fs worst %.2fs' % (EB, SB, A, B, N, len(cubes), res, time.time() - t0, worst), flush=True)
