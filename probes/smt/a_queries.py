import subprocess, time
W = '''(declare-const n Real)(declare-const z Real)
(define-fun c ((k Real)) Real (/ (+ k (/ (* z z) 2.0)) (+ n (* z z))))
'''
def run(name, q, solvers=(('z3-new',), ('z3',)), to=180):
    open('aq.smt2','w').write(q)
    for s in solvers:
        t=time.time()
        try: out=subprocess.run(list(s)+['aq.smt2'],capture_output=True,text=True,timeout=to).stdout.strip().replace('\n',' ')[:400]
        except subprocess.TimeoutExpired: out='timeout'
        print('%-34s %-7s %s %.1fs'%(name,s[0],out,time.time()-t),flush=True)
# A1 monotone in k: lo(k) <= lo(k2) for k<=k2
q = '''(declare-const n Real)(declare-const z Real)(declare-const k Real)(declare-const k2 Real)(declare-const r Real)(declare-const r2 Real)
(assert (and (>= n 4.0) (>= k 2.0) (<= k k2) (<= k2 (- n 2.0)) (> z 0.0)))
(assert (and (>= r 0.0) (= (* r r) (+ (/ (* k (- n k)) n) (/ (* z z) 4.0)))))
(assert (and (>= r2 0.0) (= (* r2 r2) (+ (/ (* k2 (- n k2)) n) (/ (* z z) 4.0)))))
(define-fun D () Real (+ n (* z z)))
(define-fun lo1 () Real (- (/ (+ k (/ (* z z) 2.0)) D) (* (/ z D) r)))
(define-fun lo2 () Real (- (/ (+ k2 (/ (* z z) 2.0)) D) (* (/ z D) r2)))
(define-fun hi1 () Real (+ (/ (+ k (/ (* z z) 2.0)) D) (* (/ z D) r)))
(define-fun hi2 () Real (+ (/ (+ k2 (/ (* z z) 2.0)) D) (* (/ z D) r2)))
(assert (not (and (<= lo1 lo2) (<= hi1 hi2))))
(check-sat)'''
run('A1 monotone in k', q)
# A1b mirror
q = '''(declare-const n Real)(declare-const z Real)(declare-const k Real)(declare-const r Real)(declare-const r2 Real)
(assert (and (>= n 4.0) (>= k 2.0) (<= k (- n 2.0))))
(assert (and (>= r 0.0) (= (* r r) (+ (/ (* k (- n k)) n) (/ (* z z) 4.0)))))
(assert (and (>= r2 0.0) (= (* r2 r2) (+ (/ (* (- n k) (- n (- n k))) n) (/ (* z z) 4.0)))))
(define-fun D () Real (+ n (* z z)))
(define-fun lo1 () Real (- (/ (+ k (/ (* z z) 2.0)) D) (* (/ z D) r)))
(define-fun hi2 () Real (+ (/ (+ (- n k) (/ (* z z) 2.0)) D) (* (/ z D) r2)))
(assert (not (= lo1 (- 1.0 hi2))))
(check-sat)'''
run('A1b mirror', q)
# A2 shrink
q = '''(declare-const n Real)(declare-const z Real)(declare-const k Real)(declare-const m Real)(declare-const r Real)(declare-const r2 Real)
(assert (and (>= n 4.0) (>= k 2.0) (<= k (- n 2.0)) (> z 0.0) (> m 1.0)))
(assert (and (>= r 0.0) (= (* r r) (+ (/ (* k (- n k)) n) (/ (* z z) 4.0)))))
(assert (and (>= r2 0.0) (= (* r2 r2) (+ (/ (* (* m k) (- (* m n) (* m k))) (* m n)) (/ (* z z) 4.0)))))
(define-fun w1 () Real (* 2.0 (* (/ z (+ n (* z z))) r)))
(define-fun w2 () Real (* 2.0 (* (/ z (+ (* m n) (* z z))) r2)))
(assert (not (< w2 w1)))
(check-sat)'''
run('A2 shrink with m', q)
# A3 ratio truncation existence in F(11,53)
q = '''(declare-const n (_ BitVec 32))(declare-const k (_ BitVec 32))
(assert (and (bvuge k #x00000002) (bvule k (bvsub n #x00000002)) (bvuge n #x00000004) (bvule n #x000F4240)))
(define-fun nf () (_ FloatingPoint 11 53) ((_ to_fp_unsigned 11 53) RNE n))
(define-fun kf () (_ FloatingPoint 11 53) ((_ to_fp_unsigned 11 53) RNE k))
(define-fun rate () (_ FloatingPoint 11 53) (fp.div RNE kf nf))
(define-fun back () (_ FloatingPoint 11 53) (fp.mul RNE rate nf))
(assert (fp.lt back kf))
(check-sat)(get-value (n k))'''
run('A3 ratio truncation exists', q, solvers=(('z3-new',),('cvc5','--lang','smt2','--produce-models')), to=600)
# A4 wald: k=10 rejected because n*fl(k/n) < 10
q = '''(declare-const n (_ BitVec 32))
(assert (and (bvuge n #x00000014) (bvule n #x000F4240)))
(define-fun nf () (_ FloatingPoint 11 53) ((_ to_fp_unsigned 11 53) RNE n))
(define-fun p () (_ FloatingPoint 11 53) (fp.div RNE ((_ to_fp 11 53) RNE 10.0) nf))
(assert (fp.lt (fp.mul RNE nf p) ((_ to_fp 11 53) RNE 10.0)))
(check-sat)(get-value (n))'''
run('A4 wald k=10 rejected exists', q, solvers=(('z3-new',),('cvc5','--lang','smt2','--produce-models')), to=600)
