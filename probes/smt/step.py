import subprocess, time, sys
def gen(eb, sb, A, B, C, pre_c=None, goal='defect'):
    F='(_ FloatingPoint %d %d)'%(eb,sb); W='(_ FloatingPoint 11 53)'
    L=['(set-logic QF_FP)']
    for v in ('s','c','x'):
        L+= ['(declare-const %s %s)'%(v,F), '(assert (or (fp.isNormal %s) (fp.isZero %s)))'%(v,v)]
    L+=['(define-fun y () %s (fp.sub RNE x c))'%F,'(define-fun t () %s (fp.add RNE s y))'%F,'(define-fun c2 () %s (fp.sub RNE (fp.sub RNE t s) y))'%F]
    L+=['(assert (or (fp.isNormal %s) (fp.isZero %s)))'%(v,v) for v in ('y','t','c2')]
    w=lambda v:'((_ to_fp 11 53) RNE %s)'%v
    u=2.0**(-sb)
    k=lambda m,v:'(fp.mul RNE ((_ to_fp 11 53) RNE %r) (fp.abs %s))'%(m,w(v))
    if pre_c is not None:
        L.append('(assert (fp.leq (fp.abs %s) %s))'%(w('c'),k(pre_c*u,'s')))
    d='(fp.sub RNE (fp.sub RNE (fp.sub RNE %s %s) (fp.sub RNE %s %s)) %s)'%(w('t'),w('c2'),w('s'),w('c'),w('x'))
    if goal=='defect':
        L.append('(assert (not (fp.leq (fp.abs %s) (fp.add RNE %s %s))))'%(d,k(A*u,'x'),k(B*u,'c')))
    else:
        L.append('(assert (not (fp.leq (fp.abs %s) %s)))'%(w('c2'),k(C*u,'t')))
    L.append('(check-sat)'); 
    if '--model' in sys.argv: L.append('(get-value (s c x y t c2))')
    return '\n'.join(L)
for (eb,sb,A,B,C,pre,goal) in [(5,11,2,2,1,None,'defect'),(5,11,2,2,1,None,'cinv'),(5,11,2,2,2,None,'cinv'),(5,11,1,2,1,2,'defect'),(8,24,2,2,2,None,'cinv'),(8,24,2,2,1,None,'defect')]:
    open('sq.smt2','w').write(gen(eb,sb,A,B,C,pre,goal))
    t=time.time()
    try: out=subprocess.run(['z3-new','sq.smt2'],capture_output=True,text=True,timeout=600).stdout.strip().replace('\n',' ')[:300]
    except subprocess.TimeoutExpired: out='timeout'
    print('FP(%d,%d) A=%s B=%s C=%s pre_c=%s goal=%s: %s %.1fs'%(eb,sb,A,B,C,pre,goal,out,time.time()-t),flush=True)
