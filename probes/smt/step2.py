import subprocess, time, sys
EB, SB = 5, 11
W = 64
def fx(name):
    # fixed-point integer (scaled by 2^(bias-1+SB-1)) of BV16 float `name`_bv, as signed W-bit
    mb = SB-1
    return f'''(define-fun {name}_e () (_ BitVec {EB}) ((_ extract {EB+mb-1} {mb}) {name}_bv))
(define-fun {name}_m () (_ BitVec {W}) ((_ zero_extend {W-mb}) ((_ extract {mb-1} 0) {name}_bv)))
(define-fun {name}_mag () (_ BitVec {W}) (ite (= {name}_e #b{'0'*EB}) {name}_m (bvshl (bvor {name}_m (_ bv{1<<mb} {W})) (bvsub ((_ zero_extend {W-EB}) {name}_e) (_ bv1 {W})))))
(define-fun {name}_fx () (_ BitVec {W}) (ite (= ((_ extract {EB+mb} {EB+mb}) {name}_bv) #b1) (bvneg {name}_mag) {name}_mag))
'''
def gen(A,B,pre=None,goal='defect',C=2):
    F=f'(_ FloatingPoint {EB} {SB})'
    L=['(set-logic QF_BVFP)']
    for v in ('s','c','x'):
        L.append(f'(declare-const {v}_bv (_ BitVec {EB+SB}))'); L.append(f'(define-fun {v} () {F} ((_ to_fp {EB} {SB}) {v}_bv))')
        L.append(f'(assert (not (fp.isNaN {v})))'); L.append(f'(assert (not (fp.isInfinite {v})))')
    L.append(f'(define-fun y () {F} (fp.sub RNE x c))'); L.append(f'(define-fun t () {F} (fp.add RNE s y))'); L.append(f'(define-fun c2 () {F} (fp.sub RNE (fp.sub RNE t s) y))')
    for v in ('y','t','c2'):
        L.append(f'(declare-const {v}_bv (_ BitVec {EB+SB}))'); L.append(f'(assert (= {v} ((_ to_fp {EB} {SB}) {v}_bv)))')
        L.append(f'(assert (not (fp.isNaN {v})))'); L.append(f'(assert (not (fp.isInfinite {v})))')
    for v in ('s','c','x','t','c2'): L.append(fx(v))
    absf=lambda e:f'(ite (bvslt {e} (_ bv0 {W})) (bvneg {e}) {e})'
    if pre is not None:  # |c| <= pre*u*|s|  <=> |c|*2^SB <= pre*|s|
        L.append(f'(assert (bvsle (bvshl {absf("c_fx")} (_ bv{SB} {W})) (bvmul (_ bv{pre} {W}) {absf("s_fx")})))')
    d=f'(bvsub (bvsub (bvsub t_fx c2_fx) (bvsub s_fx c_fx)) x_fx)'
    if goal=='defect':
        L.append(f'(assert (not (bvsle (bvshl {absf(d)} (_ bv{SB} {W})) (bvadd (bvmul (_ bv{A} {W}) {absf("x_fx")}) (bvmul (_ bv{B} {W}) {absf("c_fx")})))))')
    else:
        L.append(f'(assert (not (bvsle (bvshl {absf("c2_fx")} (_ bv{SB} {W})) (bvmul (_ bv{C} {W}) {absf("t_fx")}))))')
    L.append('(check-sat)'); L.append('(get-value (s c x y t c2))')
    return '\n'.join(L)
for (A,B,pre,goal,C) in [(2,2,None,'cinv',2),(2,2,None,'defect',2),(2,2,2,'defect',2),(1,2,2,'defect',2),(1,1,2,'defect',2),(4,4,None,'defect',2)]:
    open('sq2.smt2','w').write(gen(A,B,pre,goal,C))
    t=time.time()
    try: out=subprocess.run(['z3-new','sq2.smt2'],capture_output=True,text=True,timeout=900).stdout.strip().replace('\n',' ')[:260]
    except subprocess.TimeoutExpired: out='timeout'
    print(f'F({EB},{SB}) A={A} B={B} pre_c={pre} goal={goal} C={C}: {out} {time.time()-t:.1f}s',flush=True)
