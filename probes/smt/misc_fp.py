import subprocess, time, sys
from concurrent.futures import ThreadPoolExecutor
exec(open('step2.py').read().split("for (A,B,pre,goal,C) in")[0])
def run(name, q, to=900):
    t=time.time()
    try: out=subprocess.run(['z3-new','-in'],input=q,capture_output=True,text=True,timeout=to).stdout.strip().replace('\n',' ')[:200]
    except subprocess.TimeoutExpired: out='timeout'
    return '%-46s %s %.1fs'%(name,out,time.time()-t)
jobs=[]
# L2 monolithic at tiny formats
for (eb,sb) in [(3,4),(3,5),(4,4),(4,5)]:
    src=open('step2.py').read().split("for (A,B,pre,goal,C) in")[0].replace("EB, SB = 5, 11","EB, SB = %d, %d"%(eb,sb)).replace("W = 64","W = 32")
    g={}; exec(src,g)
    for (A,B) in [(2,2),(1,1)]:
        jobs.append(('L2 F(%d,%d) A=%d B=%d monolithic'%(eb,sb,A,B), g['gen'](A,B,None,'defect',2).replace('(get-value (s c x y t c2))','')))
# C16 scaling lemma at F(5,11): fl(2a + 2b) = 2 fl(a+b), all finite, no overflow
F='(_ FloatingPoint 5 11)'
two='((_ to_fp 5 11) RNE 2.0)'
pre='(declare-const a %s)(declare-const b %s)(declare-const k %s)'%(F,F,F)
fin=lambda *v:''.join('(assert (not (fp.isNaN %s)))(assert (not (fp.isInfinite %s)))'%(x,x) for x in v)
for op in ('add','sub','mul','div'):
    lhs='(fp.%s RNE (fp.mul RNE %s a) (fp.mul RNE %s b))'%(op,two,two)
    scale = two if op in ('add','sub') else ('((_ to_fp 5 11) RNE 4.0)' if op=='mul' else '((_ to_fp 5 11) RNE 1.0)')
    rhs='(fp.mul RNE %s (fp.%s RNE a b))'%(scale,op)
    q='(set-logic QF_FP)'+pre+fin('a','b')+'(assert (fp.isNormal (fp.%s RNE a b)))(assert (fp.isNormal a))(assert (fp.isNormal b))'%op+fin(lhs,rhs,'(fp.mul RNE %s a)'%two,'(fp.mul RNE %s b)'%two)+'(assert (not (fp.eq %s %s)))(check-sat)'%(lhs,rhs)
    jobs.append(('C16 scaling by 2 commutes with fp.%s F(5,11)'%op,q))
# C13: mul monotone at F(5,11) and F(8,24)
for (eb,sb) in [(5,11),(8,24)]:
    F2='(_ FloatingPoint %d %d)'%(eb,sb)
    q='(set-logic QF_FP)(declare-const lo %s)(declare-const x %s)(declare-const k %s)'%(F2,F2,F2)+fin('lo','x','k')+'(assert (fp.leq lo x))(assert (fp.geq k ((_ to_fp %d %d) RNE 0.0)))(assert (not (fp.leq (fp.mul RNE lo k) (fp.mul RNE x k))))(check-sat)'%(eb,sb)
    jobs.append(('C13 mul monotone F(%d,%d)'%(eb,sb),q))
    q='(set-logic QF_FP)(declare-const lo %s)(declare-const x %s)(declare-const k %s)'%(F2,F2,F2)+fin('lo','x','k')+'(assert (fp.leq lo x))(assert (fp.gt k ((_ to_fp %d %d) RNE 0.0)))(assert (not (fp.leq (fp.div RNE lo k) (fp.div RNE x k))))(check-sat)'%(eb,sb)
    jobs.append(('C13 div monotone F(%d,%d)'%(eb,sb),q))
with ThreadPoolExecutor(14) as ex:
    for r in ex.map(lambda j: run(*j), jobs): print(r, flush=True)
