// Design-round probe (not part of the machinery). Ran as src/verif_harness.rs of a scratch copy
// of /repo with `#[cfg(kani)] mod verif_harness;` appended to lib.rs, KahanSum given the missing
// serde derives, and a `verif_set` constructor shim on Arithmetic:
//   cargo kani --features serde -j 3 --output-format terse -Z unstable-options --no-overflow-checks
// Result: all three harnesses SUCCESSFUL in 1.5-2.5 s each.
#![cfg(feature = "serde")]
use crate::*;
use serde::{de, ser, Deserialize, Serialize};

#[derive(Debug)]
struct Er;
impl core::fmt::Display for Er { fn fmt(&self, _f: &mut core::fmt::Formatter<'_>) -> core::fmt::Result { Ok(()) } }
impl std::error::Error for Er {}
impl ser::Error for Er { fn custom<T: core::fmt::Display>(_m: T) -> Self { Er } }
impl de::Error for Er { fn custom<T: core::fmt::Display>(_m: T) -> Self { Er } }

struct W { b: [u64; 16], n: usize }
impl W { fn put(&mut self, v: u64) -> Result<(), Er> { if self.n >= 16 { return Err(Er); } self.b[self.n] = v; self.n += 1; Ok(()) } }

macro_rules! unsupported { ($($f:ident($($t:ty),*) -> $r:ty;)*) => { $( fn $f(self $(, _: $t)*) -> Result<$r, Er> { Err(Er) } )* } }

impl<'a> ser::Serializer for &'a mut W {
    type Ok = (); type Error = Er;
    type SerializeSeq = ser::Impossible<(), Er>; type SerializeTuple = ser::Impossible<(), Er>;
    type SerializeTupleStruct = ser::Impossible<(), Er>; type SerializeTupleVariant = Self;
    type SerializeMap = ser::Impossible<(), Er>; type SerializeStruct = Self; type SerializeStructVariant = ser::Impossible<(), Er>;
    fn serialize_f64(self, v: f64) -> Result<(), Er> { self.put(v.to_bits()) }
    fn serialize_f32(self, v: f32) -> Result<(), Er> { self.put(v.to_bits() as u64) }
    fn serialize_u64(self, v: u64) -> Result<(), Er> { self.put(v) }
    fn serialize_newtype_variant<T: ?Sized + Serialize>(self, _n: &'static str, idx: u32, _v: &'static str, value: &T) -> Result<(), Er> { self.put(idx as u64)?; value.serialize(self) }
    fn serialize_tuple_variant(self, _n: &'static str, idx: u32, _v: &'static str, _len: usize) -> Result<Self, Er> { self.put(idx as u64)?; Ok(self) }
    fn serialize_struct(self, _n: &'static str, _len: usize) -> Result<Self, Er> { Ok(self) }
    unsupported! {
        serialize_bool(bool) -> (); serialize_i8(i8) -> (); serialize_i16(i16) -> (); serialize_i32(i32) -> (); serialize_i64(i64) -> ();
        serialize_u8(u8) -> (); serialize_u16(u16) -> (); serialize_u32(u32) -> (); serialize_char(char) -> (); serialize_str(&str) -> ();
        serialize_bytes(&[u8]) -> (); serialize_none() -> (); serialize_unit() -> (); serialize_unit_struct(&'static str) -> ();
        serialize_unit_variant(&'static str, u32, &'static str) -> ();
        serialize_seq(Option<usize>) -> Self::SerializeSeq; serialize_tuple(usize) -> Self::SerializeTuple;
        serialize_tuple_struct(&'static str, usize) -> Self::SerializeTupleStruct; serialize_map(Option<usize>) -> Self::SerializeMap;
        serialize_struct_variant(&'static str, u32, &'static str, usize) -> Self::SerializeStructVariant;
    }
    fn serialize_some<T: ?Sized + Serialize>(self, _v: &T) -> Result<(), Er> { Err(Er) }
    fn serialize_newtype_struct<T: ?Sized + Serialize>(self, _n: &'static str, _v: &T) -> Result<(), Er> { Err(Er) }
}
impl<'a> ser::SerializeStruct for &'a mut W { type Ok = (); type Error = Er;
    fn serialize_field<T: ?Sized + Serialize>(&mut self, _k: &'static str, v: &T) -> Result<(), Er> { v.serialize(&mut **self) }
    fn end(self) -> Result<(), Er> { Ok(()) } }
impl<'a> ser::SerializeTupleVariant for &'a mut W { type Ok = (); type Error = Er;
    fn serialize_field<T: ?Sized + Serialize>(&mut self, v: &T) -> Result<(), Er> { v.serialize(&mut **self) }
    fn end(self) -> Result<(), Er> { Ok(()) } }

struct R<'b> { b: &'b [u64; 16], i: usize }
impl<'b> R<'b> { fn get(&mut self) -> Result<u64, Er> { if self.i >= 16 { return Err(Er); } let v = self.b[self.i]; self.i += 1; Ok(v) } }
impl<'de, 'a, 'b> de::Deserializer<'de> for &'a mut R<'b> {
    type Error = Er;
    fn deserialize_any<V: de::Visitor<'de>>(self, _v: V) -> Result<V::Value, Er> { Err(Er) }
    fn deserialize_f64<V: de::Visitor<'de>>(self, v: V) -> Result<V::Value, Er> { let x = self.get()?; v.visit_f64(f64::from_bits(x)) }
    fn deserialize_f32<V: de::Visitor<'de>>(self, v: V) -> Result<V::Value, Er> { let x = self.get()?; v.visit_f32(f32::from_bits(x as u32)) }
    fn deserialize_u64<V: de::Visitor<'de>>(self, v: V) -> Result<V::Value, Er> { let x = self.get()?; v.visit_u64(x) }
    fn deserialize_struct<V: de::Visitor<'de>>(self, _n: &'static str, f: &'static [&'static str], v: V) -> Result<V::Value, Er> { v.visit_seq(Seq { r: self, left: f.len() }) }
    fn deserialize_enum<V: de::Visitor<'de>>(self, _n: &'static str, _vs: &'static [&'static str], v: V) -> Result<V::Value, Er> { v.visit_enum(En { r: self }) }
    serde::forward_to_deserialize_any! { bool i8 i16 i32 i64 i128 u8 u16 u32 u128 char str string bytes byte_buf option unit unit_struct newtype_struct seq tuple tuple_struct map identifier ignored_any }
}
struct Seq<'a, 'b> { r: &'a mut R<'b>, left: usize }
impl<'de, 'a, 'b> de::SeqAccess<'de> for Seq<'a, 'b> { type Error = Er;
    fn next_element_seed<T: de::DeserializeSeed<'de>>(&mut self, seed: T) -> Result<Option<T::Value>, Er> { if self.left == 0 { return Ok(None); } self.left -= 1; seed.deserialize(&mut *self.r).map(Some) } }
struct En<'a, 'b> { r: &'a mut R<'b> }
impl<'de, 'a, 'b> de::EnumAccess<'de> for En<'a, 'b> { type Error = Er; type Variant = Self;
    fn variant_seed<T: de::DeserializeSeed<'de>>(self, seed: T) -> Result<(T::Value, Self), Er> {
        use de::IntoDeserializer; let idx = self.r.get()? as u32; let v = seed.deserialize(idx.into_deserializer())?; Ok((v, self)) } }
impl<'de, 'a, 'b> de::VariantAccess<'de> for En<'a, 'b> { type Error = Er;
    fn unit_variant(self) -> Result<(), Er> { Err(Er) }
    fn newtype_variant_seed<T: de::DeserializeSeed<'de>>(self, seed: T) -> Result<T::Value, Er> { seed.deserialize(self.r) }
    fn tuple_variant<V: de::Visitor<'de>>(self, len: usize, v: V) -> Result<V::Value, Er> { v.visit_seq(Seq { r: self.r, left: len }) }
    fn struct_variant<V: de::Visitor<'de>>(self, _f: &'static [&'static str], _v: V) -> Result<V::Value, Er> { Err(Er) } }

fn roundtrip<T: Serialize + for<'d> Deserialize<'d>>(x: &T) -> (T, [u64; 16], usize) {
    let mut w = W { b: [0; 16], n: 0 };
    x.serialize(&mut w).unwrap();
    let mut r = R { b: &w.b, i: 0 };
    let y = T::deserialize(&mut r).unwrap();
    (y, w.b, w.n)
}

#[kani::proof]
#[kani::unwind(18)]
fn c20_confidence_roundtrip() {
    let l: f64 = kani::any();
    let c = match kani::any::<u8>() % 3 { 0 => Confidence::TwoSided(l), 1 => Confidence::UpperOneSided(l), _ => Confidence::LowerOneSided(l) };
    let (d, _, _) = roundtrip(&c);
    match (c, d) { (Confidence::TwoSided(a), Confidence::TwoSided(b)) | (Confidence::UpperOneSided(a), Confidence::UpperOneSided(b)) | (Confidence::LowerOneSided(a), Confidence::LowerOneSided(b)) => assert!(a.to_bits() == b.to_bits()), _ => assert!(false) }
}
#[kani::proof]
#[kani::unwind(18)]
fn c20_interval_roundtrip() {
    let (a, b): (f64, f64) = (kani::any(), kani::any());
    let i = match kani::any::<u8>() % 3 { 0 => Interval::TwoSided(a, b), 1 => Interval::UpperOneSided(a), _ => Interval::LowerOneSided(b) };
    let (j, _, _) = roundtrip(&i);
    match (i, j) { (Interval::TwoSided(a, b), Interval::TwoSided(x, y)) => assert!(a.to_bits() == x.to_bits() && b.to_bits() == y.to_bits()),
        (Interval::UpperOneSided(a), Interval::UpperOneSided(x)) | (Interval::LowerOneSided(a), Interval::LowerOneSided(x)) => assert!(a.to_bits() == x.to_bits()), _ => assert!(false) }
}
#[kani::proof]
#[kani::unwind(18)]
fn c20_arith_roundtrip() {
    let mut st = mean::Arithmetic::<f64>::new();
    st.verif_set(kani::any(), kani::any(), kani::any(), kani::any(), kani::any());
    let (st2, b1, n1) = roundtrip(&st);
    let (_, b2, n2) = roundtrip(&st2);
    assert!(n1 == 5 && n1 == n2);
    let mut i = 0; while i < 5 { assert!(b1[i] == b2[i]); i += 1; }
}
