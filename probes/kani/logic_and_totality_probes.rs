// Design-round probes (not part of the machinery): the harness shapes whose timings are quoted in
// DESIGN.md. Each block ran as src/verif_harness.rs of a scratch copy of /repo (lib.rs gets
// `#[cfg(kani)] mod verif_harness;`); state-level harnesses used two cfg(kani) constructor shims
// in the copy (KahanSum::verif_raw(sum, comp), Arithmetic::verif_set(s, sc, q, qc, n)) which the
// real machinery replaces by child modules.  Command:
//   cargo kani -j N --output-format terse -Z stubbing -Z unstable-options --harness-timeout T --no-overflow-checks
use crate::*;
use core::cmp::Ordering;
use core::sync::atomic::{AtomicU64, AtomicUsize, Ordering::SeqCst};
use statrs::distribution::{ContinuousCDF, Normal, StudentsT};

fn any_conf() -> Confidence {
    let l: f64 = kani::any();
    kani::assume(l > 0. && l < 1.);
    match kani::any::<u8>() % 3 { 0 => Confidence::TwoSided(l), 1 => Confidence::UpperOneSided(l), _ => Confidence::LowerOneSided(l) }
}
fn any_interval_i8() -> Interval<i8> {
    let k: u8 = kani::any(); let a: i8 = kani::any(); let b: i8 = kani::any();
    match k % 3 { 0 => { kani::assume(a <= b); Interval::TwoSided(a, b) } 1 => Interval::UpperOneSided(a), _ => Interval::LowerOneSided(b) }
}
// set semantics with sentinels
fn lo(i: &Interval<i8>) -> i16 { match i { Interval::TwoSided(a, _) | Interval::UpperOneSided(a) => *a as i16, _ => -1000 } }
fn hi(i: &Interval<i8>) -> i16 { match i { Interval::TwoSided(_, b) | Interval::LowerOneSided(b) => *b as i16, _ => 1000 } }

// C07 (0.1 s each; intersects FAILS on the pinned tree)
#[kani::proof]
fn c07_intersects() { let a = any_interval_i8(); let b = any_interval_i8(); assert_eq!(a.intersects(&b), lo(&a).max(lo(&b)) <= hi(&a).min(hi(&b))); }
#[kani::proof]
fn c07_includes() { let a = any_interval_i8(); let b = any_interval_i8(); assert_eq!(a.includes(&b), lo(&a) <= lo(&b) && hi(&b) <= hi(&a)); }

// C15 (0.6 s, holds)
#[kani::proof]
fn c15_order_laws() {
    let a = any_interval_i8(); let b = any_interval_i8(); let c = any_interval_i8();
    let ab = a.partial_cmp(&b); let ba = b.partial_cmp(&a); let bc = b.partial_cmp(&c); let ac = a.partial_cmp(&c);
    assert_eq!(ab == Some(Ordering::Equal), a == b);
    assert_eq!(ab == Some(Ordering::Less), a != b && hi(&a) <= lo(&b));
    assert_eq!(ab == Some(Ordering::Less), ba == Some(Ordering::Greater));
    if ab == Some(Ordering::Less) && bc == Some(Ordering::Less) { assert!(ac == Some(Ordering::Less)); }
}

// C13 (0.3 s; FAILS on the pinned tree: one-sided kinds swapped)
#[kani::proof]
fn c13_add_scalar_sound() {
    let k0: u8 = kani::any(); let a: i32 = kani::any(); let b: i32 = kani::any();
    kani::assume(-1000 <= a && a <= 1000 && -1000 <= b && b <= 1000);
    let i = match k0 % 3 { 0 => { kani::assume(a <= b); Interval::TwoSided(a, b) } 1 => Interval::UpperOneSided(a), _ => Interval::LowerOneSided(b) };
    let k: i32 = kani::any(); kani::assume(-1000 <= k && k <= 1000);
    let x: i32 = kani::any(); kani::assume(-3000 <= x && x <= 3000);
    if i.contains(&x) { assert!((i + k).contains(&(x + k))); }
}

// C19: opaque element type whose relation is a symbolic truth table (0.3 s, holds)
static TABLE: AtomicU64 = AtomicU64::new(0);
#[derive(PartialEq, PartialOrd, Clone, Copy, Debug)]
struct E(u8);
impl approx::AbsDiffEq for E {
    type Epsilon = u8;
    fn default_epsilon() -> u8 { 0 }
    fn abs_diff_eq(&self, other: &Self, eps: u8) -> bool {
        let idx = ((self.0 & 3) as u64) | (((other.0 & 3) as u64) << 2) | (((eps & 3) as u64) << 4);
        (TABLE.load(SeqCst) >> idx) & 1 == 1
    }
}
#[kani::proof]
fn c19_abs_diff_opaque() {
    use approx::AbsDiffEq;
    TABLE.store(kani::any(), SeqCst);
    let (a, b, x, y) = (E(kani::any()), E(kani::any()), E(kani::any()), E(kani::any()));
    let e: u8 = kani::any(); let ka: u8 = kani::any(); let kb: u8 = kani::any();
    let mk = |k: u8, l: E, h: E| match k % 3 { 0 => Interval::TwoSided(l, h), 1 => Interval::UpperOneSided(l), _ => Interval::LowerOneSided(h) };
    let r = mk(ka, a, b).abs_diff_eq(&mk(kb, x, y), e);
    let expect = (ka % 3 == kb % 3) && match ka % 3 { 0 => a.abs_diff_eq(&x, e) && b.abs_diff_eq(&y, e), 1 => a.abs_diff_eq(&x, e), _ => b.abs_diff_eq(&y, e) };
    assert_eq!(r, expect);
}

// C19 Display with a token element type into a fixed buffer (32 s, holds)
#[derive(PartialEq, PartialOrd, Clone, Copy)]
struct Tok(u8);
impl core::fmt::Display for Tok { fn fmt(&self, f: &mut core::fmt::Formatter<'_>) -> core::fmt::Result { use core::fmt::Write; f.write_char((b'a' + (self.0 % 26)) as char) } }
struct Buf { b: [u8; 16], n: usize }
impl core::fmt::Write for Buf { fn write_str(&mut self, s: &str) -> core::fmt::Result { for c in s.bytes() { if self.n >= 16 { return Err(core::fmt::Error); } self.b[self.n] = c; self.n += 1; } Ok(()) } }
#[kani::proof]
#[kani::unwind(18)]
fn c19_display() {
    use core::fmt::Write;
    let a = Tok(kani::any()); let b = Tok(kani::any()); let k: u8 = kani::any();
    let i = match k % 3 { 0 => Interval::TwoSided(a, b), 1 => Interval::UpperOneSided(a), _ => Interval::LowerOneSided(b) };
    let mut w = Buf { b: [0; 16], n: 0 };
    write!(w, "{}", i).unwrap();
    let ca = b'a' + a.0 % 26; let cb = b'a' + b.0 % 26;
    match k % 3 {
        0 => assert!(w.n == 6 && w.b[0] == b'[' && w.b[1] == ca && w.b[2] == b',' && w.b[3] == b' ' && w.b[4] == cb && w.b[5] == b']'),
        1 => assert!(w.n == 6 && w.b[0] == b'[' && w.b[1] == ca && w.b[2] == b',' && w.b[3] == b'-' && w.b[4] == b'>' && w.b[5] == b')'),
        _ => assert!(w.n == 6 && w.b[0] == b'(' && w.b[1] == b'<' && w.b[2] == b'-' && w.b[3] == b',' && w.b[4] == cb && w.b[5] == b']'),
    }
}

// C11: quantile stubs at the statrs trait-impl boundary; constructors stay real
fn icdf_t_stub(_d: &StudentsT, p: f64) -> f64 { let c: f64 = kani::any(); kani::assume(c.is_finite()); kani::assume(!(p > 0.5) || c >= 0.0); kani::assume(!(p < 0.5) || c <= 0.0); c }
fn icdf_n_stub(_d: &Normal, p: f64) -> f64 { let c: f64 = kani::any(); kani::assume(c.is_finite()); kani::assume(!(p > 0.5) || c >= 0.0); kani::assume(!(p < 0.5) || c <= 0.0); c }
// state-level (92-114 s) : overflow at count 0, unwrap panic at count 1, NaN bounds -- all reported
#[kani::proof]
#[kani::stub(<StudentsT as ContinuousCDF<f64, f64>>::inverse_cdf, icdf_t_stub)]
#[kani::stub(<Normal as ContinuousCDF<f64, f64>>::inverse_cdf, icdf_n_stub)]
fn c11_ci_mean_state_f64() {
    let n: usize = kani::any(); kani::assume(n <= (1usize << 40));
    let mut st = mean::Arithmetic::<f64>::new();
    st.verif_set(kani::any(), kani::any(), kani::any(), kani::any(), n);
    if let Ok(i) = st.ci_mean(any_conf()) {
        match i { Interval::TwoSided(a, b) => assert!(a <= b), Interval::UpperOneSided(a) => assert!(!a.is_nan()), Interval::LowerOneSided(b) => assert!(!b.is_nan()) }
    }
}
// API-level (123 s): same failures reachable through the public API
#[kani::proof]
#[kani::unwind(5)]
#[kani::stub(<StudentsT as ContinuousCDF<f64, f64>>::inverse_cdf, icdf_t_stub)]
#[kani::stub(<Normal as ContinuousCDF<f64, f64>>::inverse_cdf, icdf_n_stub)]
fn c11_arith_ci_api_f64() {
    let d: [f64; 3] = kani::any(); let len: usize = kani::any(); kani::assume(len <= 3);
    match mean::Arithmetic::<f64>::ci(any_conf(), &d[..len].to_vec()) {
        Ok(Interval::TwoSided(a, b)) => assert!(a <= b),
        Ok(Interval::UpperOneSided(a)) => assert!(!a.is_nan()),
        Ok(Interval::LowerOneSided(b)) => assert!(!b.is_nan()),
        Err(_) => {}
    }
}

// C03: element selection / order independence with ci_indices stubbed (24 s for N = 5, holds)
static L: AtomicUsize = AtomicUsize::new(0); static H: AtomicUsize = AtomicUsize::new(0);
fn indices_stub(confidence: Confidence, data_len: usize, _q: f64) -> CIResult<Interval<usize>> {
    if data_len < 4 { return Err(error::CIError::TooFewSamples(data_len)); }
    let l = L.load(SeqCst); let h = H.load(SeqCst); kani::assume(l <= h && h < data_len);
    match confidence { Confidence::TwoSided(_) => Ok(Interval::TwoSided(l, h)), Confidence::UpperOneSided(_) => Ok(Interval::UpperOneSided(l)), Confidence::LowerOneSided(_) => Ok(Interval::LowerOneSided(h)) }
}
fn kth(d: &[u8; 5], k: usize, v: u8) -> bool {
    let mut lt = 0; let mut le = 0; let mut i = 0; let mut present = false;
    while i < 5 { if d[i] < v { lt += 1; } if d[i] <= v { le += 1; } if d[i] == v { present = true; } i += 1; }
    present && lt <= k && k < le
}
#[kani::proof]
#[kani::unwind(8)]
#[kani::stub(crate::quantile::ci_indices, indices_stub)]
fn c03_vec_vs_arrayvec() {
    let d: [u8; 5] = kani::any();
    L.store(kani::any(), SeqCst); H.store(kani::any(), SeqCst);
    let conf = any_conf(); let q: f64 = kani::any(); kani::assume(q > 0.0 && q < 1.0);
    match (quantile::ci::<u8, _>(conf, &d.to_vec(), q), quantile::ci_max_size::<u8, [u8; 5], 5>(conf, &d, q)) {
        (Ok(a), Ok(b)) => { assert!(a == b); if let Interval::TwoSided(x, y) = a { assert!(kth(&d, L.load(SeqCst), x) && kth(&d, H.load(SeqCst), y)); } }
        (Err(_), Err(_)) => {}
        _ => assert!(false),
    }
}

// C03: rank arithmetic with ci_wilson stubbed to "any bounds bracketing k/n" (n <= 64 symbolic: 26 s)
fn wilson_stub(confidence: Confidence, population: usize, successes: usize) -> CIResult<Interval<f64>> {
    if successes < 2 { return Err(error::CIError::TooFewSuccesses(successes, population, 0.0)); }
    if population < successes || population - successes < 2 { return Err(error::CIError::TooFewFailures(0, population, 0.0)); }
    let lo: f64 = kani::any(); let hi: f64 = kani::any();
    let p = successes as f64 / population as f64;
    kani::assume(0.0 <= lo && lo <= p && p <= hi && hi <= 1.0);
    match confidence { Confidence::TwoSided(_) => Ok(Interval::TwoSided(lo, hi)), Confidence::UpperOneSided(_) => Ok(Interval::TwoSided(lo, 1.0)), Confidence::LowerOneSided(_) => Ok(Interval::TwoSided(0.0, hi)) }
}
#[kani::proof]
#[kani::stub(crate::proportion::ci_wilson, wilson_stub)]
fn c03_ranks_sym64() {
    let n: usize = kani::any(); kani::assume(n <= 64);
    let q: f64 = kani::any(); let conf = any_conf();
    match quantile::Stats::new(n).ci(conf, q) {
        Ok(Interval::TwoSided(l, h)) => { assert!(conf.is_two_sided()); assert!(l <= h && h < n); }
        Ok(Interval::UpperOneSided(l)) => { assert!(conf.is_upper()); assert!(l < n); }
        Ok(Interval::LowerOneSided(h)) => { assert!(conf.is_lower()); assert!(h < n); }
        Err(error::CIError::InvalidQuantile(_)) => assert!(!(q > 0.0 && q < 1.0)),
        Err(error::CIError::TooFewSamples(m)) => assert!(m == n && n < 4),
        Err(error::CIError::TooFewSuccesses(..)) | Err(error::CIError::TooFewFailures(..)) => assert!(n >= 4),
        Err(_) => assert!(false),
    }
}
