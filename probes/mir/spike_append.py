import sys, re
sys.path.insert(0, '/var/tmp/probe')
import mirx2
from mirx2 import *
fns = parse_mir('/var/tmp/probe/mir/lib.mir')
mirx2.VARIANTS['KahanSum'] = ['KahanSum']; mirx2.VARIANTS['Arithmetic'] = ['Arithmetic']; mirx2.VARIANTS['tuple'] = ['tuple']
sem = Sem('real')
ks = lambda a, b: ('adt', 'KahanSum', 0, [('f', a), ('f', b)])
def run(fnname_suffix, locals_):
    mach = Machine(fns, sem, {}, '/var/tmp/probe/mir/c')
    fn = [f for f in fns if f['name'].endswith(fnname_suffix)][0]
    st = {'frames': [{'fn': fn, 'locals': locals_, 'bb': 'bb0', 'ret': None}], 'pc': []}
    work = [st]
    while work:
        s_ = work.pop()
        try: mach.step_until_done(s_, work)
        except Stuck as e: mach.results.append((s_['pc'], ('stuck', str(e)), None))
    return mach.results
state = ('adt', 'Arithmetic', 0, [ks('s', 'sc'), ks('q', 'qc'), ('i', 'n')])
print('--- append')
for pc, r, loc in run('314:29>::append', {'_self': state, '_1': ('ref', 0, '_self', ()), '_2': ('f', 'x')}):
    print(pc, show(r)); 
    if loc: print('   state:', show(loc['_self']))
state2 = ('adt', 'Arithmetic', 0, [ks('s2', 'sc2'), ks('q2', 'qc2'), ('i', 'n2')])
print('--- add (merge)')
for pc, r, loc in run('314:29>::add', {'_1': state, '_2': state2}):
    print(pc, show(r)[:700])
