import pickle, subprocess, time, sys
sys.path.insert(0,'/var/tmp/probe')
from mirx2 import show, VARIANTS
VARIANTS.update({'tuple':['tuple']})
res, decls, asserts = pickle.load(open('/var/tmp/probe/unpaired.pkl','rb'))
D = ['(declare-const kind Int)','(declare-const L Real)','(declare-fun Tq (Real Real) Real)','(declare-fun Zq (Real) Real)']
for p in 'ab':
    D += ['(declare-const %s%s Real)' % (v,p) for v in ('s','sc','q','qc','n')]
D += decls
va = lambda p: '(/ (- (+ q{p} qc{p}) (/ (* (+ s{p} sc{p}) (+ s{p} sc{p})) n{p})) (- n{p} 1.0))'.format(p=p)
pre = D + ['(assert (and (<= 0 kind 2) (< 0.0 L 1.0) (>= na 2.0) (>= nb 2.0)))'] + ['(assert %s)' % a for a in asserts]
pre += ['(assert (> %s 0.0))' % va('a'), '(assert (> %s 0.0))' % va('b')]
pre += ['(declare-const rse Real)', '(assert (and (>= rse 0.0) (= (* rse rse) (+ (/ %s na) (/ %s nb)))))' % (va('a'), va('b'))]
A = '(/ %s na)' % va('a'); B = '(/ %s nb)' % va('b')
nu = '(- (/ (* (+ {A} {B}) (+ {A} {B})) (+ (/ (* {A} {A}) (+ na 1.0)) (/ (* {B} {B}) (+ nb 1.0)))) 2.0)'.format(A=A,B=B)
md = '(- (/ (+ sa sca) na) (/ (+ sb scb) nb))'
def check(name, pc, goal_neg):
    q = '\n'.join(pre + ['(assert %s)' % c for c in pc] + ['(assert %s)' % goal_neg, '(check-sat)'])
    t=time.time()
    try: out = subprocess.run(['z3-new','-in'], input=q, capture_output=True, text=True, timeout=120).stdout.strip().split('\n')[0]
    except subprocess.TimeoutExpired: out='timeout'
    print('  %-40s %-8s %.2fs' % (name, out, time.time()-t), flush=True)
for pc, r, _ in res:
    if not (r[0]=='adt' and r[1]=='Result' and r[2]==0): continue
    feas = subprocess.run(['z3-new','-in'], input='\n'.join(pre+['(assert %s)'%c for c in pc]+['(check-sat)']), capture_output=True, text=True).stdout.strip()
    if feas != 'sat': continue
    iv = r[3][0]; vn = VARIANTS['Interval'][iv[2]]
    kind = [c for c in pc if 'kind' in c][0]
    usesT = any('Tq' in x[1] for x in iv[3])
    qexp = '(/ (+ 1.0 L) 2.0)' if kind=='(= kind 0)' else 'L'
    cval = '(Tq %s %s)' % (qexp, nu) if usesT else '(Zq %s)' % qexp
    lo = '(- %s (* %s rse))' % (md, cval); hi = '(+ %s (* %s rse))' % (md, cval)
    print('path', kind, 'T' if usesT else 'Z', vn)
    if vn in ('TwoSided','UpperOneSided'): check('lo == spec', pc, '(not (= %s %s))' % (iv[3][0][1], lo))
    if vn in ('TwoSided','LowerOneSided'): check('hi == spec', pc, '(not (= %s %s))' % (iv[3][-1][1], hi))

print('--- decomposed')
def sub_at(s, i):
    d=0
    for j in range(i, len(s)):
        if s[j]=='(': d+=1
        if s[j]==')':
            d-=1
            if d==0: return s[i:j+1]
def args(term):
    inner = term[1:-1]; out=[]; i=0; 
    while i < len(inner):
        if inner[i]==' ': i+=1; continue
        if inner[i]=='(':
            t=sub_at(inner,i); out.append(t); i+=len(t)
        else:
            j=inner.find(' ', i); j = len(inner) if j<0 else j; out.append(inner[i:j]); i=j
    return out
done=set()
for pc, r, _ in res:
    if not (r[0]=='adt' and r[1]=='Result' and r[2]==0): continue
    iv = r[3][0]; t = iv[3][0][1]
    if 'Tq' not in t: continue
    feas = subprocess.run(['z3-new','-in'], input='\n'.join(pre+['(assert %s)'%c for c in pc]+['(check-sat)']), capture_output=True, text=True).stdout.strip()
    if feas != 'sat': continue
    op, mdt, prod = args(t)           # (- MD (* (Tq Q DOF) SE))
    _, tq, se = args(prod)
    _, qarg, dof = args(tq)
    key=(mdt,se,dof)
    if key in done: continue
    done.add(key)
    check('MD term == ma - mb', pc, '(not (= %s %s))' % (mdt, md))
    check('SE term == rse', pc, '(not (= %s rse))' % se)
    check('DOF term == nu', pc, '(not (= %s %s))' % (dof, nu))
    print('   q arg:', qarg)
