import pickle, subprocess, time, sys, re
sys.path.insert(0,'/var/tmp/probe')
exec(open('check_unpaired.py').read().split("print('--- decomposed')")[0].split("for pc, r, _ in res:")[0])
exec("def sub_at" + open('check_unpaired.py').read().split("def sub_at")[1].split("done=set()")[0])
# abstraction: variance terms -> Va, Vb
vt = []
for a in asserts:
    m = re.match(r'\(=> \(>= (.*) 0\.0\) \(and \(>= (sqrt!\d+) 0\.0\)', a)
    if m: vt.append((m.group(2), sub_at(a, a.index('(>= ')+4)))
print([(n, t[:60]) for n, t in vt])
absmap = {vt[0][1]: 'Va', vt[1][1]: 'Vb'}
def ab(s):
    for k, v in absmap.items(): s = s.replace(k, v)
    return s
D2 = ['(declare-const Va Real)','(declare-const Vb Real)','(declare-const na Real)','(declare-const nb Real)','(declare-const sqrt!1 Real)','(declare-const sqrt!2 Real)',
      '(assert (and (> Va 0.0) (> Vb 0.0) (>= na 2.0) (>= nb 2.0) (>= sqrt!1 0.0) (>= sqrt!2 0.0) (= (* sqrt!1 sqrt!1) Va) (= (* sqrt!2 sqrt!2) Vb)))']
A='(/ Va na)'; B='(/ Vb nb)'
nu = '(- (/ (* (+ {A} {B}) (+ {A} {B})) (+ (/ (* {A} {A}) (+ na 1.0)) (/ (* {B} {B}) (+ nb 1.0)))) 2.0)'.format(A=A,B=B)
for pc, r, _ in res:
    if not (r[0]=='adt' and r[1]=='Result' and r[2]==0): continue
    t = r[3][0][3][0][1]
    if 'Tq' not in t: continue
    op, mdt, prod = args(t); _, tq, se = args(prod); _, qarg, dof = args(tq)
    dofa = ab(dof); sea = ab(se)
    if 'sqrt!3' in dofa or 'sa' in dofa: print('abstraction incomplete', dofa[:200]); break
    for name, goal in (('DOF == nu (abstracted)', '(not (= %s %s))' % (dofa, nu)), ('SE^2 == Va/na+Vb/nb (abstracted)', None)):
        if goal is None:
            # se is sqrt!k of sum term: find its defining assert
            k = se; defn = [a for a in asserts if '(>= %s 0.0)' % k in a][0]; arg = ab(sub_at(defn, defn.index('(>= ')+4))
            goal = '(not (= %s (+ %s %s)))' % (arg, A, B)
        q = '\n'.join(D2 + ['(assert %s)' % goal, '(check-sat)'])
        t0=time.time()
        try: out = subprocess.run(['z3-new','-in'], input=q, capture_output=True, text=True, timeout=120).stdout.strip().split('\n')[0]
        except subprocess.TimeoutExpired: out='timeout'
        print('  %-40s %-8s %.2fs' % (name, out, time.time()-t0))
    break
