import sys, subprocess, time, re
sys.path.insert(0, '/var/tmp/probe')
import mirx2
from mirx2 import *
fns = parse_mir('/var/tmp/probe/mir/lib.mir')
sem = Sem('real')
mirx2.VARIANTS.update({'StudentsT': ['StudentsT'], 'KahanSum': ['KahanSum'], 'Arithmetic': ['Arithmetic'], 'Unpaired': ['Unpaired'], 'Harmonic': ['Harmonic'], 'Geometric': ['Geometric'], 'tuple': ['tuple']})
orig_call = Machine.call
def call(self, st, fid, callee, argv, dest, nxt):
    c = callee
    deref = lambda v: self.read(st, (v[1], v[2]), list(v[3])) if v[0] == 'ref' else v
    if c.startswith('StudentsT::new'):
        return [('(> %s 0.0)' % argv[2][1], ('adt', 'Result', 0, [('adt', 'StudentsT', 0, [argv[2]])])), ('(not (> %s 0.0))' % argv[2][1], ('panic', 'StudentsT::new(..).unwrap() on Err'))]
    if re.match(r'Result::<.*>::unwrap$', c): return [(None, argv[0][3][0])]
    if 'StudentsT as ContinuousCDF' in c and c.endswith('inverse_cdf'):
        d = deref(argv[0]); return [(None, ('f', '(Tq %s %s)' % (argv[1][1], d[3][0][1])))]
    if 'Normal as ContinuousCDF' in c and c.endswith('inverse_cdf'): return [(None, ('f', '(Zq %s)' % argv[1][1]))]
    if 'as Deref>::deref' in c: return [(None, ('opaque', 'NORMAL'))]
    if re.search(r'as (num_traits::)?(One|identities::One)>::one$', c) or c.endswith('>::one'): return [(None, ('f', '1.0'))]
    if c.endswith('>::zero'): return [(None, ('f', '0.0'))]
    if c.endswith('>::infinity'): return [(None, ('f', 'INF'))]
    if c.endswith('>::neg_infinity'): return [(None, ('f', 'NINF'))]
    if re.search(r'Float>::exp$', c): return [(None, ('f', '(EXP %s)' % argv[0][1]))]
    if re.search(r'Float>::ln$', c): return [(None, ('f', '(LN %s)' % argv[0][1]))]
    if c == 'Option::<F>::ok_or_else' or re.match(r'Option::<.*>::ok_or_else', c):
        v = argv[0]; return [(None, ('adt', 'Result', 0, [v[3][0]]) if v[2] == 1 else ('adt', 'Result', 1, [('opaque', 'err')]))]
    return orig_call(self, st, fid, callee, argv, dest, nxt)
Machine.call = call
orig_read = Machine.read
def read(self, st, cell, path):
    v = st['frames'][cell[0]]['locals'][cell[1]]
    for i in path:
        if v[0] in ('adt', 'symenum'): v = v[3][i]
        else: raise Stuck('field of %r' % (v,))
    return v
Machine.read = read
ks = lambda a, b: ('adt', 'KahanSum', 0, [('f', a), ('f', b)])
ar = lambda p: ('adt', 'Arithmetic', 0, [ks('s' + p, 'sc' + p), ks('q' + p, 'qc' + p), ('i', 'n' + p)])
conf = ('symenum', 'Confidence', 'kind', [('f', 'L')])
def run(suffix, locals_):
    mach = Machine(fns, sem, {}, '/var/tmp/probe/mir/c')
    cands = [f for f in fns if f['name'].endswith(suffix)]
    print(suffix, [f['name'] for f in cands][:3])
    fn = cands[0]
    st = {'frames': [{'fn': fn, 'locals': locals_, 'bb': 'bb0', 'ret': None}], 'pc': []}
    work = [st]
    while work:
        s_ = work.pop()
        try: mach.step_until_done(s_, work)
        except Stuck as e: mach.results.append((s_['pc'], ('stuck', str(e)), None))
    return mach.results
which = sys.argv[1]
if which == 'unpaired':
    un = ('adt', 'Unpaired', 0, [ar('a'), ar('b')])
    res = run('516:27>::ci_mean', {'_self': un, '_1': ('ref', 0, '_self', ()), '_2': conf})
elif which == 'harmonic':
    res = run('481:27>::ci_mean', {'_self': ('adt', 'Harmonic', 0, [ar('')]), '_1': ('ref', 0, '_self', ()), '_2': conf})
else:
    res = run('641:28>::ci_mean', {'_self': ('adt', 'Geometric', 0, [ar('')]), '_1': ('ref', 0, '_self', ()), '_2': conf})
from collections import Counter
print(Counter(r[0] if r[0] != 'adt' else show(r)[:40] for pc, r, _ in res))
for pc, r, _ in res:
    if r[0] == 'stuck': print('STUCK', r[1]); break
import pickle; pickle.dump((res, sem.decls, sem.asserts), open('/var/tmp/probe/%s.pkl' % which, 'wb'))
ok = [(pc, r) for pc, r, _ in res if r[0] == 'adt' and r[1] == 'Result' and r[2] == 0]
print(len(ok), 'Ok paths; example:'); print(show(ok[0][1])[:900] if ok else None)
