#!/usr/bin/env python3
"""Spike: symbolic execution of (loop-free) rustc MIR text into SMT-LIB terms.
Float semantics selectable: 'real' or ('fp', eb, sb)."""
import re, sys, itertools

def parse_mir(path):
    fns = {}
    cur = None
    for line in open(path):
        line = line.rstrip('\n')
        if line.startswith('fn ') and line.endswith('{'):
            m = re.match(r'fn (.*?)\((.*)\) -> (.*) \{$', line)
            name, args, ret = m.group(1), m.group(2), m.group(3)
            cur = {'name': name, 'args': args, 'ret': ret, 'blocks': {}, 'locals': {}}
            fns.setdefault(name, []).append(cur)
            bb = None
            continue
        if cur is None:
            continue
        if line == '}':
            cur = None
            continue
        m = re.match(r'\s+(bb\d+)(?: \(cleanup\))?: \{$', line)
        if m:
            bb = m.group(1); cur['blocks'][bb] = []
            continue
        m = re.match(r'\s+let (?:mut )?(_\d+): (.*);$', line)
        if m:
            cur['locals'][m.group(1)] = m.group(2); continue
        if re.match(r'\s+\}$', line):
            continue
        if 'bb' in dir() and bb and re.match(r'\s{8}\S', line):
            cur['blocks'][bb].append(line.strip())
    return fns

class Sem:
    def __init__(self, mode):
        self.mode = mode
        self.decls = []
        self.asserts = []
        self.n = 0
    def fsort(self):
        return 'Real' if self.mode == 'real' else '(_ FloatingPoint %d %d)' % self.mode[1:]
    def fresh(self, base, sort):
        self.n += 1
        nm = '%s!%d' % (base, self.n)
        self.decls.append('(declare-const %s %s)' % (nm, sort))
        return nm
    def fconst(self, s):
        v = s.replace('f64', '').replace('f32', '')
        if self.mode == 'real':
            from fractions import Fraction
            fr = Fraction(v)
            return '(/ %d %d)' % (fr.numerator, fr.denominator) if fr.denominator != 1 else ('%d.0' % fr.numerator if fr >= 0 else '(- %d.0)' % -fr.numerator)
        return '((_ to_fp %d %d) RNE %s)' % (self.mode[1], self.mode[2], v if '.' in v else v + '.0')
    def fbin(self, op, a, b):
        if self.mode == 'real':
            return '(%s %s %s)' % ({'Add': '+', 'Sub': '-', 'Mul': '*', 'Div': '/'}[op], a, b)
        return '(fp.%s RNE %s %s)' % (op.lower(), a, b)
    def fcmp(self, op, a, b):
        if self.mode == 'real':
            o = {'Lt': '<', 'Le': '<=', 'Gt': '>', 'Ge': '>=', 'Eq': '='}[op]
        else:
            o = {'Lt': 'fp.lt', 'Le': 'fp.leq', 'Gt': 'fp.gt', 'Ge': 'fp.geq', 'Eq': 'fp.eq'}[op]
        return '(%s %s %s)' % (o, a, b)
    def sqrt(self, a):
        if self.mode == 'real':
            r = self.fresh('sqrt', 'Real')
            self.asserts.append('(=> (>= %s 0.0) (and (>= %s 0.0) (= (* %s %s) %s)))' % (a, r, r, r, a))
            return r
        return '(fp.sqrt RNE %s)' % a
    def int2f(self, a):
        if self.mode == 'real':
            return '(to_real %s)' % a
        return '((_ to_fp %d %d) RNE (to_real %s))' % (self.mode[1], self.mode[2], a)

class Exec:
    def __init__(self, fns, sem, oracles):
        self.fns, self.sem, self.oracles = fns, sem, oracles
        self.paths = []

    def run(self, fname, argvals):
        fn = self.fns[fname][0]
        env = {}
        for i, v in enumerate(argvals):
            env['_%d' % (i + 1)] = v
        self._run(fn, 'bb0', env, [])
        return self.paths

    def operand(self, env, s):
        s = s.strip()
        m = re.match(r'(?:copy|move) (.*)$', s)
        if m:
            return self.place_get(env, m.group(1))
        m = re.match(r'const (.*)$', s)
        if m:
            c = m.group(1)
            if re.match(r'-?[\d.eE+-]+f(64|32)$', c):
                return ('f', self.sem.fconst(c))
            m2 = re.match(r'(-?\d+)_(usize|isize|u\d+|i\d+)$', c)
            if m2:
                return ('i', m2.group(1))
            if c in ('true', 'false'):
                return ('b', c)
            return ('opaque', c)
        raise Exception('operand? ' + s)

    def place_get(self, env, p):
        p = p.strip()
        m = re.match(r'\((.*)\.(\d+): [^()]*\)$', p)
        if m:
            base = self.place_get(env, m.group(1))
            return base[2][int(m.group(2))]
        m = re.match(r'\((.*) as (\w+)\)$', p)
        if m:
            return self.place_get(env, m.group(1))
        return env[p]

    def _run(self, fn, bb, env, pc):
        env = dict(env)
        while True:
            for st in fn['blocks'][bb][:-1]:
                self.stmt(env, st)
            term = fn['blocks'][bb][-1]
            if term == 'return;':
                self.paths.append((pc, env.get('_0')))
                return
            if term == 'unreachable;':
                return
            m = re.match(r'goto -> (bb\d+);', term)
            if m:
                bb = m.group(1); continue
            m = re.match(r'switchInt\((.*)\) -> \[(.*)\];', term)
            if m:
                v = self.operand(env, m.group(1))
                arms = [a.strip().split(': ') for a in m.group(2).split(',')]
                others = []
                for k, tgt in arms:
                    if k == 'otherwise':
                        cond = '(and %s)' % ' '.join(['true'] + ['(not %s)' % o for o in others])
                    else:
                        cond = self.eqconst(v, k)
                        others.append(cond)
                    self._run(fn, tgt, env, pc + [cond])
                return
            m = re.match(r'assert\((!?)(.*?), "(.*?)".*\) -> \[success: (bb\d+), .*\];', term)
            if m:
                v = self.operand(env, m.group(2))
                c = v[1] if not m.group(1) else '(not %s)' % v[1]
                self.paths.append((pc + ['(not %s)' % c], ('panic', m.group(3))))
                pc = pc + [c]
                bb = m.group(4); continue
            m = re.match(r'(\S+) = (.*)\((.*)\) -> \[return: (bb\d+), .*\];', term)
            if m:
                dst, callee, args, nxt = m.groups()
                argv = [self.operand(env, a) for a in self.split_args(args)]
                env[dst] = self.call(callee, argv)
                bb = nxt; continue
            raise Exception('terminator? ' + term)

    def split_args(self, s):
        out, depth, cur = [], 0, ''
        for ch in s:
            if ch in '([<{': depth += 1
            if ch in ')]>}': depth -= 1
            if ch == ',' and depth == 0:
                out.append(cur); cur = ''
            else:
                cur += ch
        if cur.strip(): out.append(cur)
        return out

    def eqconst(self, v, k):
        if v[0] == 'b':
            return v[1] if k != '0' else '(not %s)' % v[1]
        if v[0] == 'i':
            return '(= %s %s)' % (v[1], k)
        if v[0] == 'disc':
            return '(= %s %s)' % (v[1], k)
        raise Exception('eqconst ' + repr(v))

    def call(self, callee, argv):
        if callee in self.oracles:
            return self.oracles[callee](self, argv)
        if callee.endswith('f64>::sqrt') or callee == 'std::f64::<impl f64>::sqrt':
            return ('f', self.sem.sqrt(argv[0][1]))
        if re.match(r'interval::Interval::<f64>::new$', callee):
            return ('adt', 'IntervalNew', [argv[0], argv[1]])
        if 'map_err' in callee:
            return argv[0]
        raise Exception('call? ' + callee)

    def stmt(self, env, st):
        m = re.match(r'(\S+) = (.*);$', st)
        if not m:
            if st.startswith(('StorageLive', 'StorageDead', 'nop', 'FakeRead', 'PlaceMention')): return
            raise Exception('stmt? ' + st)
        dst, rhs = m.groups()
        env[dst] = self.rvalue(env, rhs)

    def rvalue(self, env, rhs):
        m = re.match(r'(Add|Sub|Mul|Div|Lt|Le|Gt|Ge|Eq|Ne|SubWithOverflow|AddWithOverflow)\((.*), (.*)\)$', rhs)
        if m:
            op, a, b = m.group(1), self.operand(env, m.group(2)), self.operand(env, m.group(3))
            if a[0] == 'f':
                if op in ('Add', 'Sub', 'Mul', 'Div'):
                    return ('f', self.sem.fbin(op, a[1], b[1]))
                return ('b', self.sem.fcmp(op, a[1], b[1]))
            if a[0] == 'i':
                if op in ('Lt', 'Le', 'Gt', 'Ge', 'Eq'):
                    return ('b', '(%s %s %s)' % ({'Lt': '<', 'Le': '<=', 'Gt': '>', 'Ge': '>=', 'Eq': '='}[op], a[1], b[1]))
                if op == 'SubWithOverflow':
                    return ('adt', 'tuple', [('i', '(- %s %s)' % (a[1], b[1])), ('b', '(< %s %s)' % (a[1], b[1]))])
                if op == 'Sub':
                    return ('i', '(- %s %s)' % (a[1], b[1]))
            raise Exception('binop? ' + rhs)
        m = re.match(r'(.*) as f64 \(IntToFloat\)$', rhs)
        if m:
            return ('f', self.sem.int2f(self.operand(env, m.group(1))[1]))
        m = re.match(r'discriminant\((.*)\)$', rhs)
        if m:
            v = self.place_get(env, m.group(1))
            return ('disc', v[1])
        m = re.match(r'(?:copy|move|const) ', rhs)
        if m:
            return self.operand(env, rhs)
        m = re.match(r'([\w:<>, ]+?)::(\w+)\((.*)\)$', rhs)
        if m:
            return ('adt', m.group(1) + '::' + m.group(2), [self.operand(env, a) for a in self.split_args(m.group(3))])
        raise Exception('rvalue? ' + rhs)

if __name__ == '__main__':
    fns = parse_mir(sys.argv[1])
    print(len(fns), 'functions parsed')
