import sys, subprocess, time
sys.path.insert(0, '/var/tmp/probe')
from mirx import *
fns = parse_mir('/var/tmp/probe/mir/lib.mir')
sem = Sem('real')
sem.decls += ['(declare-const kind Int)', '(declare-const L Real)', '(declare-const n Int)', '(declare-const k Int)', '(declare-const z Real)']
ex = Exec(fns, sem, {'z_value': lambda e, a: ('f', 'z')})
conf = ('adt', 'Confidence', [('f', 'L')])
conf = ('adtd', 'kind', [('f', 'L')])
paths = ex.run('ci_wilson', [conf, ('i', 'n'), ('i', 'k')])
for pc, r in paths:
    print(len(pc), r[0], r[1] if r[0] != 'adt' else r[1], [x[1][:60] for x in r[2]] if r[0]=='adt' else '')
pre = sem.decls + ['(assert (and (>= n 0) (>= k 0) (<= 0 kind 2) (< 0.0 L 1.0)))'] + ['(assert %s)' % a for a in sem.asserts]
def check(name, pc, goal_neg, extra=[]):
    q = '\n'.join(pre + ['(assert %s)' % c for c in pc] + ['(assert %s)' % e for e in extra] + ['(assert %s)' % goal_neg, '(check-sat)'])
    open('/var/tmp/probe/q.smt2', 'w').write(q)
    for solver in (['z3-new'], ['z3'], ['cvc5', '--lang', 'smt2']):
        t = time.time()
        try:
            out = subprocess.run(solver + ['/var/tmp/probe/q.smt2'], capture_output=True, text=True, timeout=60).stdout.strip()
        except subprocess.TimeoutExpired:
            out = 'timeout'
        print('  %-40s %-8s %-8s %.2fs' % (name, solver[0], out.split('\n')[0], time.time() - t))
# panic-freedom: no path ends in panic
for pc, r in paths:
    if r[0] == 'panic':
        check('panic path feasible? ' + r[1][:30], pc, 'true')
def score(p):
    return '(= (* (- {p} (/ (to_real k) (to_real n))) (- {p} (/ (to_real k) (to_real n)))) (/ (* z z {p} (- 1.0 {p})) (to_real n)))'.format(p=p)
for pc, r in paths:
    if r[0] == 'adt' and r[1] == 'IntervalNew':
        lo, hi = r[2][0][1], r[2][1][1]
        kindc = [c for c in pc if 'kind' in c]
        print('path', kindc)
        if '(= kind 0)' in pc or '(= kind 1)' in pc:
            check('lo is a root', pc, '(not %s)' % score(lo))
            check('lo <= k/n (z>=0)', pc, '(not (<= %s (/ (to_real k) (to_real n))))' % lo, ['(>= z 0.0)'])
            check('lo >= 0', pc, '(not (>= %s 0.0))' % lo)
        if '(= kind 0)' in pc or '(= kind 2)' in pc:
            check('hi is a root', pc, '(not %s)' % score(hi))
            check('hi <= 1', pc, '(not (<= %s 1.0))' % hi)
