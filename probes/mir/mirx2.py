#!/usr/bin/env python3
"""Spike 2: MIR text -> symbolic paths (explicit stack machine, refs, generic trait calls)."""
import re, sys, copy
from fractions import Fraction

# ---------------------------------------------------------------- parsing
def parse_mir(path):
    fns = []
    cur = None; bb = None
    for line in open(path):
        line = line.rstrip('\n')
        if line.startswith('fn ') and line.endswith('{'):
            m = re.match(r'fn (.*?)\((.*)\) -> (.*) \{$', line)
            if not m:
                cur = None; continue
            cur = {'name': m.group(1), 'args': split_top(m.group(2)), 'ret': m.group(3), 'blocks': {}}
            fns.append(cur); bb = None
            continue
        if cur is None: continue
        if line == '}': cur = None; continue
        m = re.match(r'\s+(bb\d+)(?: \(cleanup\))?: \{$', line)
        if m: bb = m.group(1); cur['blocks'][bb] = []; continue
        if bb and re.match(r'\s{8}\S', line): cur['blocks'][bb].append(line.strip())
    return fns

def split_top(s, sep=','):
    out, depth, cur = [], 0, ''
    i = 0
    while i < len(s):
        ch = s[i]
        if ch in '([{': depth += 1
        elif ch in ')]}': depth -= 1
        elif ch == '<' and (i == 0 or s[i-1] != '-') : depth += 1
        elif ch == '>' and s[i-1] != '-' and s[i-1] != '=': depth -= 1
        if ch == sep and depth == 0:
            out.append(cur.strip()); cur = ''
        else: cur += ch
        i += 1
    if cur.strip(): out.append(cur.strip())
    return out

def find_top(s, pat):
    depth = 0
    for i, ch in enumerate(s):
        if ch in '([{': depth += 1
        elif ch in ')]}': depth -= 1
        if depth == 0 and s.startswith(pat, i): return i
    return -1

def parse_place(s):
    s = s.strip()
    if re.fullmatch(r'_\d+', s): return (s, [])
    assert s[0] == '(' and s[-1] == ')', s
    inner = s[1:-1]
    if inner[0] == '*':
        b, p = parse_place(inner[1:]); return (b, p + [('deref',)])
    if inner[0] == '(':
        d = 0
        for j, ch in enumerate(inner):
            if ch == '(': d += 1
            if ch == ')':
                d -= 1
                if d == 0: break
        base, rest = inner[:j+1], inner[j+1:]
    else:
        m = re.match(r'_\d+', inner); base, rest = m.group(0), inner[m.end():]
    b, p = parse_place(base)
    m = re.match(r' as (\w+)$', rest)
    if m: return (b, p + [('down', m.group(1))])
    m = re.match(r'\.(\d+): ', rest)
    assert m, s
    return (b, p + [('field', int(m.group(1)))])

# ---------------------------------------------------------------- semantics
class Sem:
    def __init__(self, mode='real'):
        self.mode = mode; self.decls = []; self.asserts = []; self.n = 0
    def fresh(self, base, sort):
        self.n += 1; nm = '%s!%d' % (base, self.n); self.decls.append('(declare-const %s %s)' % (nm, sort)); return nm
    def fconst(self, v):
        fr = Fraction(v)
        if fr.denominator == 1: return '%d.0' % fr.numerator if fr >= 0 else '(- %d.0)' % -fr.numerator
        return '(/ %d.0 %d.0)' % (fr.numerator, fr.denominator)
    def fbin(self, op, a, b): return '(%s %s %s)' % ({'Add': '+', 'Sub': '-', 'Mul': '*', 'Div': '/'}[op], a, b)
    def fcmp(self, op, a, b): return '(%s %s %s)' % ({'Lt': '<', 'Le': '<=', 'Gt': '>', 'Ge': '>=', 'Eq': '='}[op], a, b)
    def sqrt(self, a):
        r = self.fresh('sqrt', 'Real')
        self.asserts.append('(=> (>= %s 0.0) (and (>= %s 0.0) (= (* %s %s) %s)))' % (a, r, r, r, a))
        return r

CMP = {'Lt': '<', 'Le': '<=', 'Gt': '>', 'Ge': '>=', 'Eq': '=', 'Ne': 'distinct'}

class Stuck(Exception): pass

class Machine:
    def __init__(self, fns, sem, oracles, srcroot):
        self.fns, self.sem, self.oracles, self.srcroot = fns, sem, oracles, srcroot
        self.results = []
        self.srccache = {}

    # ---- function lookup
    def is_trait_impl(self, fn):
        m = re.search(r'<impl at (src/[\w/]+\.rs):(\d+):', fn['name'])
        if not m: return None
        key = m.group(1)
        if key not in self.srccache: self.srccache[key] = open(self.srcroot + '/' + key).read().split('\n')
        line = self.srccache[key][int(m.group(2)) - 1]
        # macro-generated impls point at the macro invocation line; look a few lines around for "impl"
        if 'impl' not in line:
            return 'macro'
        return ' for ' in line

    def lookup(self, callee, argv_types=None, caller=None):
        # strip generics
        c = re.sub(r'::<[^<>]*(<[^<>]*>[^<>]*)*>', '', callee)
        m = re.match(r'<(.+?) as (.+?)>::(\w+)$', c)
        if m:
            ty, trait, meth = m.group(1), m.group(2), m.group(3)
            tyname = re.sub(r'<.*', '', ty).split('::')[-1]
            pat = r'\b[A-Z]\b' if re.fullmatch(r'[A-Z]', tyname) else r'\b' + re.escape(tyname) + r'\b'
            cands = [f for f in self.fns if f['name'].endswith('>::' + meth) and f['args'] and re.search(pat, f['args'][0])]
            cands = [f for f in cands if self.is_trait_impl(f) in (True, 'macro')]
            return cands
        parts = c.split('::')
        meth = parts[-1]
        if len(parts) == 1:
            return [f for f in self.fns if f['name'] == meth]
        tyname = parts[-2]
        cands = [f for f in self.fns if f['name'].endswith('>::' + meth) and f['args'] and re.search(r'\b' + re.escape(tyname) + r'\b', f['args'][0] if f['args'] else '')]
        inh = [f for f in cands if self.is_trait_impl(f) is False]
        if not inh:  # associated fn without self (e.g. new): match on return type
            cands = [f for f in self.fns if f['name'].endswith('>::' + meth) and re.search(r'\b' + re.escape(tyname) + r'\b', f['ret'])]
            inh = [f for f in cands if self.is_trait_impl(f) is False]
        return inh

    # ---- state helpers
    def resolve(self, st, fid, place):
        base, projs = place
        path = []
        cur = (fid, base)
        for p in projs:
            if p[0] == 'deref':
                v = self.read(st, cur, path)
                if v[0] != 'ref': raise Stuck('deref of non-ref %r' % (v,))
                cur, path = (v[1], v[2]), list(v[3])
            elif p[0] == 'field': path.append(p[1])
            elif p[0] == 'down': pass
        return cur, path

    def read(self, st, cell, path):
        v = st['frames'][cell[0]]['locals'][cell[1]]
        for i in path:
            if v[0] == 'adt': v = v[3][i]
            else: raise Stuck('field of %r' % (v,))
        return v

    def write(self, st, cell, path, val):
        loc = st['frames'][cell[0]]['locals']
        def upd(v, path):
            if not path: return val
            assert v[0] == 'adt', v
            fs = list(v[3]); fs[path[0]] = upd(fs[path[0]], path[1:]); return ('adt', v[1], v[2], fs)
        loc[cell[1]] = upd(loc.get(cell[1]), path)

    def get(self, st, fid, ptxt):
        cell, path = self.resolve(st, fid, parse_place(ptxt)); return self.read(st, cell, path)

    def put(self, st, fid, ptxt, val):
        cell, path = self.resolve(st, fid, parse_place(ptxt)); self.write(st, cell, path, val)

    def operand(self, st, fid, s):
        s = s.strip()
        m = re.match(r'(copy|move) (.*)$', s)
        if m: return self.get(st, fid, m.group(2))
        m = re.match(r'const (.*)$', s)
        if m:
            c = m.group(1)
            m2 = re.match(r'(-?[\d.]+(?:[eE][+-]?\d+)?)f(64|32)$', c)
            if m2: return ('f', self.sem.fconst(m2.group(1)))
            m2 = re.match(r'(-?\d+)_(usize|isize|u\d+|i\d+)$', c)
            if m2: return ('i', m2.group(1) if not m2.group(1).startswith('-') else '(- %s)' % m2.group(1)[1:])
            if c in ('true', 'false'): return ('b', c)
            if c == '()': return ('unit',)
            if c == 'stats::POPULATION_LIMIT': return ('f', '100000.0')
            return ('opaque', c)
        raise Stuck('operand? ' + s)

    # ---- run
    def run(self, fn, argvals, pc=None):
        st = {'frames': [{'fn': fn, 'locals': {('_%d' % (i + 1)): v for i, v in enumerate(argvals)}, 'bb': 'bb0', 'ret': None}], 'pc': list(pc or [])}
        work = [st]
        while work:
            st = work.pop()
            try:
                self.step_until_done(st, work)
            except Stuck as e:
                self.results.append((st['pc'], ('stuck', str(e)), None))
        return self.results

    def step_until_done(self, st, work):
        while True:
            fid = len(st['frames']) - 1
            fr = st['frames'][fid]
            blk = fr['fn']['blocks'][fr['bb']]
            for stmt in blk[:-1]: self.stmt(st, fid, stmt)
            term = blk[-1]
            if term == 'return;':
                rv = fr['locals'].get('_0', ('unit',))
                if fid == 0:
                    self.results.append((st['pc'], rv, fr['locals'])); return
                dest, nxt = fr['ret']
                st['frames'].pop()
                self.put(st, fid - 1, dest, rv); st['frames'][fid - 1]['bb'] = nxt
                continue
            if term == 'unreachable;': return
            m = re.match(r'goto -> (bb\d+);', term)
            if m: fr['bb'] = m.group(1); continue
            m = re.match(r'drop\(.*\) -> \[return: (bb\d+), .*\];', term)
            if m: fr['bb'] = m.group(1); continue
            m = re.match(r'switchInt\((.*)\) -> \[(.*)\];', term)
            if m:
                v = self.operand(st, fid, m.group(1))
                arms = [a.strip().split(': ') for a in m.group(2).split(',')]
                if v[0] in ('i', 'disc') and re.fullmatch(r'\d+', v[1]):
                    tgt = dict(arms).get(v[1], dict(arms).get('otherwise')); fr['bb'] = tgt; continue
                if v[0] == 'b' and v[1] in ('true', 'false'):
                    key = '1' if v[1] == 'true' else '0'
                    fr['bb'] = dict(arms).get(key, dict(arms).get('otherwise')); continue
                seen = []
                for k, tgt in arms:
                    if k == 'otherwise': cond = '(and true %s)' % ' '.join('(not %s)' % o for o in seen)
                    else:
                        cond = (v[1] if k != '0' else '(not %s)' % v[1]) if v[0] == 'b' else '(= %s %s)' % (v[1], k)
                        seen.append(cond)
                    s2 = copy.deepcopy(st); s2['pc'].append(cond); s2['frames'][fid]['bb'] = tgt; work.append(s2)
                return
            m = re.match(r'assert\((!?)(.*?), "(.*?)".*\) -> \[success: (bb\d+), .*\];', term)
            if m:
                v = self.operand(st, fid, m.group(2))
                c = v[1] if not m.group(1) else '(not %s)' % v[1]
                self.results.append((st['pc'] + ['(not %s)' % c], ('panic', m.group(3)), None))
                st['pc'].append(c); fr['bb'] = m.group(4); continue
            m = re.match(r'(.+?) = (.*)\((.*)\) -> \[return: (bb\d+), .*\];', term)
            if m:
                dest, callee, args, nxt = m.groups()
                argv = [self.operand(st, fid, a) for a in split_top(args)]
                alts = self.call(st, fid, callee, argv, dest, nxt)
                if alts is None: continue   # frame pushed
                if len(alts) == 1 and alts[0][0] is None:
                    self.put(st, fid, dest, alts[0][1]); fr['bb'] = nxt; continue
                for cond, val in alts:
                    s2 = copy.deepcopy(st)
                    if cond: s2['pc'].append(cond)
                    if val[0] == 'panic': self.results.append((s2['pc'], val, None)); continue
                    self.put(s2, fid, dest, val); s2['frames'][fid]['bb'] = nxt; work.append(s2)
                return
            raise Stuck('terminator? ' + term)

    def stmt(self, st, fid, s):
        if s.startswith(('StorageLive', 'StorageDead', 'nop', 'FakeRead', 'PlaceMention', 'Retag', 'AscribeUserType', 'Coverage')): return
        i = find_top(s, ' = ')
        if i < 0: raise Stuck('stmt? ' + s)
        dst, rhs = s[:i], s[i + 3:].rstrip(';')
        self.put(st, fid, dst, self.rvalue(st, fid, rhs))

    def rvalue(self, st, fid, rhs):
        m = re.match(r'(Add|Sub|Mul|Div|Lt|Le|Gt|Ge|Eq|Ne|SubWithOverflow|AddWithOverflow|MulWithOverflow)\((.*)\)$', rhs)
        if m:
            a, b = [self.operand(st, fid, x) for x in split_top(m.group(2))]
            return self.binop(m.group(1), a, b)
        m = re.match(r'(Not|Neg)\((.*)\)$', rhs)
        if m:
            a = self.operand(st, fid, m.group(2))
            if m.group(1) == 'Not': return ('b', '(not %s)' % a[1])
            return (a[0], '(- %s)' % a[1])
        m = re.match(r'(.*) as (f64|f32) \(IntToFloat\)$', rhs)
        if m: return ('f', '(to_real %s)' % self.operand(st, fid, m.group(1))[1]) if not RELAX else ('f', self.operand(st, fid, m.group(1))[1])
        m = re.match(r'(.*) as (f64|f32) \(FloatToFloat\)$', rhs)
        if m: return self.operand(st, fid, m.group(1))
        m = re.match(r'discriminant\((.*)\)$', rhs)
        if m:
            v = self.get(st, fid, m.group(1))
            if v[0] == 'adt' and isinstance(v[2], int): return ('disc', str(v[2]))
            if v[0] == 'symenum': return ('disc', v[2])
            raise Stuck('discriminant of %r' % (v,))
        m = re.match(r'&(?:mut |raw const |raw mut )?(.*)$', rhs)
        if m:
            cell, path = self.resolve(st, fid, parse_place(m.group(1)))
            return ('ref', cell[0], cell[1], tuple(path))
        if rhs.startswith(('copy ', 'move ', 'const ')): return self.operand(st, fid, rhs)
        if rhs.startswith('{closure@'):
            return ('closure', rhs)
        if rhs.startswith('(') and rhs.endswith(')'):
            return ('adt', 'tuple', 0, [self.operand(st, fid, a) for a in split_top(rhs[1:-1])])
        m = re.match(r'([\w:<>, ()&\']+?)::(\w+)\((.*)\)$', rhs)
        if m:
            ty = re.sub(r'::<.*>$', '', m.group(1)); ty = re.sub(r'<.*', '', ty).split('::')[-1]
            return ('adt', ty, VARIANTS[ty].index(m.group(2)), [self.operand(st, fid, a) for a in split_top(m.group(3))])
        m = re.match(r'([\w:<>, ]+?) \{ (.*) \}$', rhs)
        if m:
            ty = re.sub(r'<.*', '', m.group(1)).split('::')[-1]
            return ('adt', ty, 0, [self.operand(st, fid, a.split(': ', 1)[1]) for a in split_top(m.group(2))])
        m = re.match(r'([\w:<>, ]+?)::(\w+)$', rhs)
        if m:
            ty = re.sub(r'<.*', '', m.group(1)).split('::')[-1]
            if ty in VARIANTS and m.group(2) in VARIANTS[ty]: return ('adt', ty, VARIANTS[ty].index(m.group(2)), [])
        raise Stuck('rvalue? ' + rhs)

    def binop(self, op, a, b):
        if a[0] == 'f':
            if op in ('Add', 'Sub', 'Mul', 'Div'): return ('f', self.sem.fbin(op, a[1], b[1]))
            return ('b', self.sem.fcmp(op, a[1], b[1]))
        if a[0] in ('i', 'disc'):
            if op in CMP: return ('b', '(%s %s %s)' % (CMP[op], a[1], b[1]))
            o = {'Add': '+', 'Sub': '-', 'Mul': '*'}[op.replace('WithOverflow', '')]
            r = '(%s %s %s)' % (o, a[1], b[1])
            if op.endswith('WithOverflow'):
                ov = '(< %s %s)' % (a[1], b[1]) if o == '-' else '(> %s 18446744073709551615)' % r
                return ('adt', 'tuple', 0, [('i', r), ('b', ov)])
            return ('i', r)
        raise Stuck('binop %s %r' % (op, a))

    # ---- calls
    def call(self, st, fid, callee, argv, dest, nxt):
        if callee in self.oracles: return [(None, self.oracles[callee](self, argv))]
        c = re.sub(r'::<[^<>]*(<[^<>]*>[^<>]*)*>', '', callee)
        deref = lambda v: self.read(st, (v[1], v[2]), list(v[3])) if v[0] == 'ref' else v
        m = re.match(r'<&?\w+ as (Add|Sub|Mul|Div)(?:<&?\w+>)?>::(add|sub|mul|div)$', callee) or re.match(r'<\w+ as (Add|Sub|Mul|Div)>::(add|sub|mul|div)$', c)
        if m: return [(None, self.binop(m.group(1), deref(argv[0]), deref(argv[1])))]
        m = re.match(r'<&?\w+ as PartialOrd>::(lt|le|gt|ge)$', c)
        if m: return [(None, self.binop(m.group(1).capitalize() if len(m.group(1)) == 2 else m.group(1).capitalize(), deref(deref(argv[0])), deref(deref(argv[1]))))]
        if re.match(r'<\w+ as (num_traits::)?(Float|float::Float)>::sqrt$', c) or callee == 'std::f64::<impl f64>::sqrt': return [(None, ('f', self.sem.sqrt(argv[0][1])))]
        if re.match(r'<\w+ as (NumCast|num_traits::NumCast)>::from$', c):
            v = argv[0]; t = ('f', v[1]) if (v[0] == 'f' or RELAX) else ('f', '(to_real %s)' % v[1])
            return [(None, ('adt', 'Option', 1, [t]))]
        if re.match(r'<\w+ as (ToPrimitive|num_traits::ToPrimitive)>::to_f64$', c): return [(None, ('adt', 'Option', 1, [deref(argv[0])]))]
        if c == 'Option::unwrap':
            v = argv[0]
            return [(None, v[3][0])] if v[2] == 1 else [(None, ('panic', 'unwrap on None'))]
        if c == 'Option::ok_or_else':
            v = argv[0]
            return [(None, ('adt', 'Result', 0, [v[3][0]]))] if v[2] == 1 else [(None, ('adt', 'Result', 1, [('opaque', 'closure-error')]))]
        if re.match(r'<Result<.*> as Try>::branch$', c):
            v = argv[0]
            return [(None, ('adt', 'ControlFlow', 0, [v[3][0]]) if v[2] == 0 else ('adt', 'ControlFlow', 1, [('adt', 'Result', 1, [v[3][0]])]))]
        if 'FromResidual' in c: return [(None, ('adt', 'Result', 1, [argv[0][3][0]]))]
        if c == 'Result::map_err':
            v = argv[0]
            return [(None, v if v[2] == 0 else ('adt', 'Result', 1, [('adt', 'CIError', VARIANTS['CIError'].index('IntervalError'), [v[3][0]])]))]
        cands = self.lookup(callee)
        cands = [f for f in cands if len(f['args']) == len(argv)]
        if len(cands) > 1:
            # disambiguate overloaded trait impls (AddAssign<T> vs AddAssign<Self>) on 2nd argument shape
            def ok(f):
                for a, v in zip(f['args'], argv):
                    ty = a.split(': ', 1)[1]
                    if re.fullmatch(r'[A-Z]', ty) and v[0] not in ('f',): return False
                    if 'KahanSum' in ty and not ty.startswith('&') and not (v[0] == 'adt' and v[1] == 'KahanSum'): return False
                return True
            cands = [f for f in cands if ok(f)]
        if len(cands) != 1: raise Stuck('call? %s -> %d candidates %s' % (callee, len(cands), [f['name'] for f in cands][:4]))
        fn = cands[0]
        st['frames'].append({'fn': fn, 'locals': {('_%d' % (i + 1)): v for i, v in enumerate(argv)}, 'bb': 'bb0', 'ret': (dest, nxt)})
        return None

RELAX = True
VARIANTS = {
    'Result': ['Ok', 'Err'], 'Option': ['None', 'Some'], 'ControlFlow': ['Continue', 'Break'],
    'Interval': ['TwoSided', 'UpperOneSided', 'LowerOneSided'], 'Confidence': ['TwoSided', 'UpperOneSided', 'LowerOneSided'],
    'IntervalError': ['InvalidBounds', 'EmptyInterval'],
    'CIError': ['TooFewSamples', 'TooFewSuccesses', 'TooFewFailures', 'InvalidConfidenceLevel', 'InvalidQuantile', 'InvalidSuccesses', 'NonPositiveValue', 'InvalidInputData', 'FloatConversionError', 'IndexError', 'Error', 'IntervalError', 'DifferentSampleSizes'],
}

def show(v, depth=0):
    if v is None: return 'None'
    if v[0] == 'adt':
        nm = VARIANTS[v[1]][v[2]] if v[1] in VARIANTS else ''
        return '%s::%s(%s)' % (v[1], nm, ', '.join(show(x) for x in v[3]))
    if v[0] in ('f', 'i', 'b', 'disc'): return v[1] if len(v[1]) < 90 else v[1][:87] + '...'
    return repr(v)[:100]
