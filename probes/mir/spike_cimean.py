import sys, subprocess, time, re
sys.path.insert(0, '/var/tmp/probe')
import mirx2
from mirx2 import *
fns = parse_mir('/var/tmp/probe/mir/lib.mir')
sem = Sem('real')
sem.decls += ['(declare-const kind Int)', '(declare-const L Real)', '(declare-const n Real)',
              '(declare-const s Real)', '(declare-const sc Real)', '(declare-const q Real)', '(declare-const qc Real)',
              '(declare-fun Tq (Real Real) Real)', '(declare-fun Zq (Real) Real)']
calls = []
def o_tnew(m, a): return ('adt', 'Result', 0, [('adt', 'StudentsT', 0, [a[2]])])
def o_unwrap(m, a): return a[0][3][0]
def o_icdf_t(m, a):
    d = a[0]; 
    calls.append(('T', a[1][1]));
    return ('f', '(Tq %s %s)' % (a[1][1], 'DOF'))
orc = {}
mach = Machine(fns, sem, orc, '/var/tmp/probe/mir/c')
# oracle hooks by regex on callee text: patch Machine.call
orig_call = Machine.call
def call(self, st, fid, callee, argv, dest, nxt):
    c = callee
    deref = lambda v: self.read(st, (v[1], v[2]), list(v[3])) if v[0] == 'ref' else v
    if c.startswith('StudentsT::new'):
        return [('(> %s 0.0)' % argv[2][1], ('adt', 'Result', 0, [('adt', 'StudentsT', 0, [argv[2]])])), ('(not (> %s 0.0))' % argv[2][1], ('panic', 'StudentsT::new(..).unwrap() on Err'))]
    if re.match(r'Result::<.*>::unwrap$', c): return [(None, argv[0][3][0])]
    if 'StudentsT as ContinuousCDF' in c and c.endswith('inverse_cdf'):
        d = deref(argv[0]); return [(None, ('f', '(Tq %s %s)' % (argv[1][1], d[3][0][1])))]
    if 'Normal as ContinuousCDF' in c and c.endswith('inverse_cdf'):
        return [(None, ('f', '(Zq %s)' % argv[1][1]))]
    if 'as Deref>::deref' in c: return [(None, ('opaque', 'NORMAL'))]
    return orig_call(self, st, fid, callee, argv, dest, nxt)
Machine.call = call
mirx2.VARIANTS['StudentsT'] = ['StudentsT']; mirx2.VARIANTS['KahanSum'] = ['KahanSum']; mirx2.VARIANTS['Arithmetic'] = ['Arithmetic']

fn = [f for f in fns if f['name'].endswith('314:29>::ci_mean')][0]
ks = lambda a, b: ('adt', 'KahanSum', 0, [('f', a), ('f', b)])
state = ('adt', 'Arithmetic', 0, [ks('s', 'sc'), ks('q', 'qc'), ('i', 'n')])
conf = ('symenum', 'Confidence', 'kind', [('f', 'L')])
# patch read for symenum
orig_read = Machine.read
def read(self, st, cell, path):
    v = st['frames'][cell[0]]['locals'][cell[1]]
    for i in path:
        if v[0] in ('adt', 'symenum'): v = v[3][i]
        else: raise Stuck('field of %r' % (v,))
    return v
Machine.read = read
st0_locals = {'_self': state}
# run with _1 = ref to _self in frame 0
st = {'frames': [{'fn': fn, 'locals': {'_self': state, '_1': ('ref', 0, '_self', ()), '_2': conf}, 'bb': 'bb0', 'ret': None}], 'pc': []}
work = [st]
while work:
    s_ = work.pop()
    try: mach.step_until_done(s_, work)
    except Stuck as e: mach.results.append((s_['pc'], ('stuck', str(e)), None))
for pc, r, _ in mach.results:
    print(len(pc), [c for c in pc if 'kind' in c or 'DOF' in c or '100000' in c][:4], show(r)[:260])
print(len(mach.results), 'paths')
import pickle; pickle.dump((mach.results, sem.decls, sem.asserts), open('/var/tmp/probe/cimean.pkl', 'wb'))

pre = sem.decls + ['(assert (and (<= 0 kind 2) (< 0.0 L 1.0)))'] + ['(assert %s)' % a for a in sem.asserts]
def check(name, pc, goal_neg, extra=[]):
    qtxt = '\n'.join(pre + ['(assert %s)' % c for c in pc] + ['(assert %s)' % e for e in extra] + ['(assert %s)' % goal_neg, '(check-sat)'])
    open('/var/tmp/probe/q.smt2', 'w').write(qtxt)
    t = time.time()
    try: out = subprocess.run(['z3-new', '/var/tmp/probe/q.smt2'], capture_output=True, text=True, timeout=60).stdout.strip()
    except subprocess.TimeoutExpired: out = 'timeout'
    print('  %-44s %-8s %.2fs' % (name, out.split('\n')[0], time.time() - t))
sem.decls.append('(declare-const rv Real)'); sem.decls.append('(declare-const rn Real)')
pre = sem.decls + ['(assert (and (<= 0 kind 2) (< 0.0 L 1.0)))'] + ['(assert %s)' % a for a in sem.asserts]
SIG = '(+ s sc)'; Q = '(+ q qc)'
var = '(/ (- %s (/ (* %s %s) n)) (- n 1.0))' % (Q, SIG, SIG)
spec_extra = ['(>= n 2.0)', '(>= %s 0.0)' % var, '(and (>= rv 0.0) (= (* rv rv) %s))' % var, '(and (>= rn 0.0) (= (* rn rn) n))']
for pc, r, _ in mach.results:
    if r[0] == 'panic':
        check('feasible with n>=2? ' + r[1][:30], pc, 'true', ['(>= n 2.0)'])
        continue
    if r[0] == 'stuck': print('  STUCK', r[1]); continue
    if r[0] == 'adt' and r[1] == 'Result' and r[2] == 0:
        iv = r[3][0]
        feas = subprocess.run(['z3-new', '-in'], input='\n'.join(pre + ['(assert %s)' % c for c in pc] + ['(check-sat)']), capture_output=True, text=True).stdout.strip()
        if feas != 'sat': continue
        orc = 'Tq' if any('Tq' in x[1] for x in iv[3]) else 'Zq'
        kind = [c for c in pc if 'kind' in c][0]
        qexp = '(/ (+ 1.0 L) 2.0)' if kind == '(= kind 0)' else 'L'
        cval = '(Tq %s (- n 1.0))' % qexp if orc == 'Tq' else '(Zq %s)' % qexp
        lo_spec = '(- (/ %s n) (/ (* %s rv) rn))' % (SIG, cval); hi_spec = '(+ (/ %s n) (/ (* %s rv) rn))' % (SIG, cval)
        vn = VARIANTS['Interval'][iv[2]]
        print('path', kind, orc, vn, 'dof<1e5' if any('100000' in c and not c.startswith('(not') for c in pc) else '')
        if vn == 'TwoSided': check('lo == spec and hi == spec', pc, '(not (and (= %s %s) (= %s %s)))' % (iv[3][0][1], lo_spec, iv[3][1][1], hi_spec), spec_extra)
        if vn == 'UpperOneSided': check('lo == spec', pc, '(not (= %s %s))' % (iv[3][0][1], lo_spec), spec_extra)
        if vn == 'LowerOneSided': check('hi == spec', pc, '(not (= %s %s))' % (iv[3][0][1], hi_spec), spec_extra)
