import sys, subprocess, struct, math, re
sys.path.insert(0, '/var/tmp/probe')
import mirx2
from mirx2 import *
class SemFP(Sem):
    def __init__(self, eb=11, sb=53):
        super().__init__('fp'); self.eb, self.sb = eb, sb
        self.S = '(_ FloatingPoint %d %d)' % (eb, sb)
    def fconst(self, v): return '((_ to_fp %d %d) RNE %s)' % (self.eb, self.sb, v if ('.' in v or 'e' in v.lower()) else v + '.0')
    def fbin(self, op, a, b): return '(fp.%s RNE %s %s)' % (op.lower(), a, b)
    def fcmp(self, op, a, b): return '(%s %s %s)' % ({'Lt': 'fp.lt', 'Le': 'fp.leq', 'Gt': 'fp.gt', 'Ge': 'fp.geq', 'Eq': 'fp.eq'}[op], a, b)
    def sqrt(self, a): return '(fp.sqrt RNE %s)' % a
fns = parse_mir('/var/tmp/probe/mir/lib.mir')
sem = SemFP()
mirx2.RELAX = False
# IntToFloat in FP mode
orig_rvalue = Machine.rvalue
def rvalue(self, st, fid, rhs):
    m = re.match(r'(.*) as (f64|f32) \(IntToFloat\)$', rhs)
    if m: return ('f', '((_ to_fp 11 53) RNE (to_real %s))' % self.operand(st, fid, m.group(1))[1])
    return orig_rvalue(self, st, fid, rhs)
Machine.rvalue = rvalue
def bits(x): return '((_ to_fp 11 53) #x%016x)' % struct.unpack('<Q', struct.pack('<d', x))[0]
z = 1.959963984540054
mach = Machine(fns, sem, {'z_value': lambda m, a: ('f', bits(z))}, '/var/tmp/probe/mir/c')
fn = [f for f in fns if f['name'] == 'ci_wilson'][0]
conf = ('symenum', 'Confidence', '0', [('f', bits(0.95))])
orig_read = Machine.read
def read(self, st, cell, path):
    v = st['frames'][cell[0]]['locals'][cell[1]]
    for i in path:
        if v[0] in ('adt', 'symenum'): v = v[3][i]
        else: raise Stuck('field of %r' % (v,))
    return v
Machine.read = read
for (n, k) in [(500, 421), (20, 10), (30, 20), (10000, 89)]:
    mach.results = []
    res = mach.run(fn, [conf, ('i', str(n)), ('i', str(k))])
    # pick the path whose pc is satisfiable
    for pc, r, _ in res:
        q = '\n'.join(['(assert %s)' % c for c in pc] + ['(check-sat)'])
        if subprocess.run(['z3-new', '-in'], input=q, capture_output=True, text=True).stdout.strip() != 'sat': continue
        iv = r[3][0]
        lo, hi = iv[3][0][1], iv[3][1][1]
        out = subprocess.run(['z3-new', '-in'], input='(simplify (fp.to_ieee_bv %s))\n(simplify (fp.to_ieee_bv %s))\n' % (lo, hi) if False else '(declare-const a (_ FloatingPoint 11 53))(declare-const b (_ FloatingPoint 11 53))(assert (= a %s))(assert (= b %s))(check-sat)(get-value (a b))' % (lo, hi), capture_output=True, text=True).stdout
        vals = re.findall(r'\(fp #b([01]) #b([01]+) #x([0-9a-f]+)\)', out)
        got = [struct.unpack('<d', struct.pack('<Q', (int(s) << 63) | (int(e, 2) << 52) | int(mm, 16)))[0] for s, e, mm in vals]
        # native python doubles, same operation order as the source
        nf, ns = float(n), float(k); nfail = nf - ns; zsq = z * z
        mean = (ns + zsq / 2.) / (nf + zsq); span = (z / (nf + zsq)) * math.sqrt((ns * nfail / nf) + (zsq / 4.))
        exp = [mean - span, mean + span]
        print((n, k), 'encoding:', got, 'native:', exp, 'bit-identical:', got == exp)
